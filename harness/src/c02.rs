//! C02 - multiplication is exact: low half, overflow flag, full double-width product.
//!
//! Layers (DESIGN section 5, C02):
//!  * MULX  exact end-to-end at <= 16 bits against the primitive u32 / i32 product;
//!  * MULU  full operands at any digit width with the DIGIT product abstracted as an uninterpreted function
//!          (`#[kani::stub]` on bnum's private `digit::*::carrying_mul`), which leaves carries, indices and flags;
//!  * ALPHA exact arithmetic on boundary-alphabet digits against u128 for wide digits;
//!  * level 0: the real digit kernels `carrying_mul` / `widening_mul` against the double-width primitive product.

use crate::util::Dig;

// ------------------------------------------------------------------------------------------------ MULX
/// unsigned, exact: overflowing_mul / widening_mul / carrying_mul against the u32 product (W <= 16 bits)
#[macro_export]
macro_rules! c02_x_u {
    ($name:ident, $unw:expr, $U:ty, $D:ty, $N:expr, ov) => {
        $crate::harness!($name, $unw, {
            use $crate::util::*;
            const W: u32 = <$D>::BITS * $N;
            let (a, ad) = <$U as BN<$D, $N>>::any();
            let (b, bd) = <$U as BN<$D, $N>>::any();
            let p = (dval_u128(&ad) as u32) * (dval_u128(&bd) as u32); // exact: both below 2^16
            let (v, f) = a.overflowing_mul(b);
            assert!(dval_u128(&v.dg()) as u32 == p & ((1u32 << W) - 1), "low half");
            assert!(f == (p >> W != 0), "flag exactly when the product does not fit");
            $crate::reach!(f && ($N == 1 || ad[$N - 1] == 0), "overflow with a zero top digit");
            $crate::reach!(!f && p > 15, "fits");
        });
    };
    ($name:ident, $unw:expr, $U:ty, $D:ty, $N:expr, wide) => {
        $crate::harness!($name, $unw, {
            use $crate::util::*;
            const W: u32 = <$D>::BITS * $N;
            let (a, ad) = <$U as BN<$D, $N>>::any();
            let (b, bd) = <$U as BN<$D, $N>>::any();
            let (c, cd) = <$U as BN<$D, $N>>::any();
            let p = (dval_u128(&ad) as u32) * (dval_u128(&bd) as u32);
            let (lo, hi) = a.widening_mul(b);
            assert!(((dval_u128(&hi.dg()) as u32) << W) | (dval_u128(&lo.dg()) as u32) == p, "hi * 2^BITS + lo == a * b");
            let q = p as u64 + dval_u128(&cd) as u64;
            let (lo, hi) = a.carrying_mul(b, c);
            assert!(((dval_u128(&hi.dg()) as u64) << W) | (dval_u128(&lo.dg()) as u64) == q, "hi * 2^BITS + lo == a * b + carry");
            $crate::reach!(q >> W > p as u64 >> W, "carry ripples into the high word");
        });
    };
    ($name:ident, $unw:expr, $U:ty, $D:ty, $N:expr, proj) => {
        $crate::harness!($name, $unw, {
            use $crate::util::*;
            let (a, _) = <$U as BN<$D, $N>>::any();
            let (b, _) = <$U as BN<$D, $N>>::any();
            let (v, f) = a.overflowing_mul(b);
            match a.checked_mul(b) { Some(c) => assert!(!f && deq(&c.dg(), &v.dg())), None => assert!(f) }
            assert!(deq(&a.wrapping_mul(b).dg(), &v.dg()), "wrapping");
            let s = a.saturating_mul(b).dg();
            assert!(if f { deq(&s, &[<$D>::MAX; $N]) } else { deq(&s, &v.dg()) }, "saturating clamps to MAX");
            if !f { assert!(deq(&a.strict_mul(b).dg(), &v.dg()) && deq(&unsafe { a.unchecked_mul(b) }.dg(), &v.dg()), "strict / unchecked"); }
            $crate::reach!(f, "overflow");
            $crate::reach!(!f, "fits");
        });
    };
}

/// signed, exact against the i32 product (W <= 16 bits)
#[macro_export]
macro_rules! c02_x_i {
    ($name:ident, $unw:expr, $I:ty, $D:ty, $N:expr, ov) => {
        $crate::harness!($name, $unw, {
            use $crate::util::*;
            const W: u32 = <$D>::BITS * $N;
            let (a, ad) = <$I as BN<$D, $N>>::any();
            let (b, bd) = <$I as BN<$D, $N>>::any();
            let p = (dval_i128(&ad) as i32) * (dval_i128(&bd) as i32); // exact: |a|,|b| <= 2^15
            let fits = p >= -(1i32 << (W - 1)) && p < (1i32 << (W - 1));
            let (v, f) = a.overflowing_mul(b);
            assert!(dval_u128(&v.dg()) as u32 == (p as u32) & ((1u32 << W) - 1), "a * b reduced into the type's range");
            assert!(f == !fits, "flag exactly when a * b lies outside [MIN, MAX]");
            let s = dval_i128(&a.saturating_mul(b).dg()) as i32;
            let e = if fits { p } else if p < 0 { -(1i32 << (W - 1)) } else { (1i32 << (W - 1)) - 1 };
            assert!(s == e, "saturates toward the sign of the exact product");
            $crate::reach!(p == -(1i32 << (W - 1)) && dval_i128(&ad) != 1 && dval_i128(&bd) != 1, "product lands exactly on MIN");
            $crate::reach!(p == (1i32 << (W - 1)), "MIN * -1 / product == 2^(BITS-1)");
            $crate::reach!(!fits && p < 0, "negative overflow");
        });
    };
    ($name:ident, $unw:expr, $I:ty, $D:ty, $N:expr, proj) => {
        $crate::harness!($name, $unw, {
            use $crate::util::*;
            let (a, _) = <$I as BN<$D, $N>>::any();
            let (b, _) = <$I as BN<$D, $N>>::any();
            let (v, f) = a.overflowing_mul(b);
            match a.checked_mul(b) { Some(c) => assert!(!f && deq(&c.dg(), &v.dg())), None => assert!(f) }
            assert!(deq(&a.wrapping_mul(b).dg(), &v.dg()), "wrapping");
            if !f { assert!(deq(&a.strict_mul(b).dg(), &v.dg()) && deq(&a.saturating_mul(b).dg(), &v.dg()) && deq(&unsafe { a.unchecked_mul(b) }.dg(), &v.dg())); }
            $crate::reach!(f, "overflow");
            $crate::reach!(!f, "fits");
        });
    };
}

/// strict_mul panics on every overflowing pair (both signs selected by a symbolic flag)
#[macro_export]
macro_rules! c02_strict_panic {
    ($name:ident, $unw:expr, $U:ty, $I:ty, $D:ty, $N:expr) => {
        $crate::panic_harness!($name, $unw, {
            use $crate::util::*;
            let (a, ad) = <$U as BN<$D, $N>>::any();
            let (b, bd) = <$U as BN<$D, $N>>::any();
            let signed: bool = $crate::nd::nd();
            let (sa, sb) = (<$I>::from_bits(a), <$I>::from_bits(b));
            let f = if signed { sa.overflowing_mul(sb).1 } else { a.overflowing_mul(b).1 };
            $crate::nd::assume(f);
            $crate::reach!(signed, "signed"); $crate::reach!(!signed, "unsigned");
            if signed { let _ = sa.strict_mul(sb); } else { let _ = a.strict_mul(b); }
            $crate::noreturn!("strict_mul returned on overflow");
        });
    };
}

// ------------------------------------------------------------------------------------------------ MULU
/// Uninterpreted digit product.  Before the call under test the harness fixes the two operand digit arrays and
/// draws an N x N matrix P[i][j] standing for a_i * b_j, constrained only by
///   P <= (B-1)^2,   P == 0 <=> a_i == 0 or b_j == 0,   equal argument pairs (in either order) get equal values.
/// The stub looks its arguments up among the operand digits; real multiplication is one admissible interpretation,
/// so "holds for every interpretation" implies "holds for the real product".
pub const UF_MAX: usize = 4;
pub static mut UF_A: [u64; UF_MAX] = [0; UF_MAX];
pub static mut UF_B: [u64; UF_MAX] = [0; UF_MAX];
pub static mut UF_P: [[u128; UF_MAX]; UF_MAX] = [[0; UF_MAX]; UF_MAX];
pub static mut UF_N: usize = 0;
pub static mut UF_MISS: bool = false;

#[inline(never)]
pub fn uf_setup<D: Dig, const N: usize>(a: &[D; N], b: &[D; N]) {
    let maxp: u128 = (D::MAXD.to_u64() as u128) * (D::MAXD.to_u64() as u128);
    unsafe {
        UF_N = N;
        UF_MISS = false;
        let mut i = 0;
        while i < N { UF_A[i] = a[i].to_u64(); UF_B[i] = b[i].to_u64(); i += 1; }
        let mut i = 0;
        while i < N {
            let mut j = 0;
            while j < N {
                #[cfg(kani)]
                let p: u128 = kani::any();
                #[cfg(not(kani))]
                let p: u128 = { let _ignored: u128 = crate::nd::nd(); (UF_A[i] as u128) * (UF_B[j] as u128) };
                crate::nd::assume(p <= maxp);
                crate::nd::assume((p == 0) == (UF_A[i] == 0 || UF_B[j] == 0));
                UF_P[i][j] = p;
                j += 1;
            }
            i += 1;
        }
        // functional consistency (Ackermann) incl. commutativity
        let mut i = 0;
        while i < N {
            let mut j = 0;
            while j < N {
                let mut k = 0;
                while k < N {
                    let mut l = 0;
                    while l < N {
                        if (UF_A[i] == UF_A[k] && UF_B[j] == UF_B[l]) || (UF_A[i] == UF_B[l] && UF_B[j] == UF_A[k]) {
                            crate::nd::assume(UF_P[i][j] == UF_P[k][l]);
                        }
                        l += 1;
                    }
                    k += 1;
                }
                j += 1;
            }
            i += 1;
        }
    }
}

#[inline(always)]
pub fn uf_lookup(a: u64, b: u64) -> u128 {
    unsafe {
        let mut found = false;
        let mut p = 0u128;
        let mut i = 0;
        while i < UF_N {
            let mut j = 0;
            while j < UF_N {
                if (UF_A[i] == a && UF_B[j] == b) || (UF_A[i] == b && UF_B[j] == a) { found = true; p = UF_P[i][j]; }
                j += 1;
            }
            i += 1;
        }
        if !found {
            // a product of something that is not a pair of operand digits: no knowledge about it
            UF_MISS = true;
            #[cfg(kani)]
            { p = kani::any(); }
            #[cfg(not(kani))]
            { p = (a as u128) * (b as u128); }
        }
        p
    }
}

macro_rules! uf_stub {
    ($cm:ident, $wm:ident, $D:ty) => {
        pub fn $cm(a: $D, b: $D, carry: $D, current: $D) -> ($D, $D) {
            let s = uf_lookup(a as u64, b as u64) + carry as u128 + current as u128;
            (s as $D, (s >> <$D>::BITS) as $D)
        }
        pub fn $wm(a: $D, b: $D) -> ($D, $D) {
            let s = uf_lookup(a as u64, b as u64);
            (s as $D, (s >> <$D>::BITS) as $D)
        }
    };
}
uf_stub!(uf_carrying_mul_u8, uf_widening_mul_u8, u8);
uf_stub!(uf_carrying_mul_u16, uf_widening_mul_u16, u16);
uf_stub!(uf_carrying_mul_u32, uf_widening_mul_u32, u32);
uf_stub!(uf_carrying_mul_u64, uf_widening_mul_u64, u64);

/// exact product  sum_ij P[i][j] * B^(i+j)  as 2N digits, from the same table
#[inline(always)]
pub fn uf_product<D: Dig, const N2: usize>() -> [D; N2] {
    let mut acc = [0u64; N2];
    unsafe {
        let n = UF_N;
        let mut i = 0;
        while i < n {
            let mut j = 0;
            while j < n {
                let p = UF_P[i][j];
                // add the double-digit p at digit offset i + j and ripple
                let mut carry: u128 = 0;
                let mut k = i + j;
                let mut part = [(p as u64) & D::MAXD.to_u64(), ((p >> D::BITS) as u64) & D::MAXD.to_u64()];
                let mut t = 0;
                while k < N2 {
                    let add = if t < 2 { part[t] } else { 0 };
                    let s = acc[k] as u128 + add as u128 + carry;
                    acc[k] = (s as u64) & D::MAXD.to_u64();
                    carry = s >> D::BITS;
                    k += 1;
                    t += 1;
                }
                j += 1;
            }
            i += 1;
        }
    }
    let mut out = [D::ZERO; N2];
    let mut k = 0;
    while k < N2 { out[k] = D::from_u64(acc[k]); k += 1; }
    out
}

/// unsigned MULU harness: overflowing_mul + widening_mul + carrying_mul under the abstraction
#[macro_export]
macro_rules! c02_u_uf {
    ($name:ident, $unw:expr, $U:ty, $D:ty, $N:expr, $N2:expr, $dm:ident, $cm:ident, $wm:ident) => {
        $crate::harness_stub!($name, $unw, [kani::stub(bnum::digit::$dm::carrying_mul, $crate::c02::$cm), kani::stub(bnum::digit::$dm::widening_mul, $crate::c02::$wm)], {
            use $crate::util::*;
            let (a, ad) = <$U as BN<$D, $N>>::any();
            let (b, bd) = <$U as BN<$D, $N>>::any();
            $crate::c02::uf_setup::<$D, $N>(&ad, &bd);
            let exact: [$D; $N2] = $crate::c02::uf_product::<$D, $N2>();
            let mut hi_zero = true;
            let mut k = $N;
            while k < $N2 { hi_zero &= exact[k] == 0; k += 1; }
            let (v, f) = a.overflowing_mul(b);
            let vd = v.dg();
            let mut k = 0;
            while k < $N { assert!(vd[k] == exact[k], "low half"); k += 1; }
            assert!(f == !hi_zero, "flag exactly when the product does not fit");
            let (lo, hi) = a.widening_mul(b);
            let (ld, hd) = (lo.dg(), hi.dg());
            let mut k = 0;
            while k < $N { assert!(ld[k] == exact[k] && hd[k] == exact[$N + k], "widening_mul: hi * 2^BITS + lo == a * b"); k += 1; }
            assert!(!unsafe { $crate::c02::UF_MISS }, "every digit product taken is a product of two operand digits");
            $crate::reach!($N < 3 || (f && ad[$N - 1] == 0 && bd[$N - 1] == 0), "overflow from carries only");
            $crate::reach!(!f && ad[$N - 1] != 0, "fits with a non-zero top digit");
        });
    };
}

/// signed MULU harness: the abstraction is set up on the magnitudes (what bnum multiplies)
#[macro_export]
macro_rules! c02_i_uf {
    ($name:ident, $unw:expr, $I:ty, $D:ty, $N:expr, $N2:expr, $dm:ident, $cm:ident, $wm:ident) => {
        $crate::harness_stub!($name, $unw, [kani::stub(bnum::digit::$dm::carrying_mul, $crate::c02::$cm), kani::stub(bnum::digit::$dm::widening_mul, $crate::c02::$wm)], {
            use $crate::util::*;
            const M: usize = $N + 1;
            let (a, ad) = <$I as BN<$D, $N>>::any();
            let (b, bd) = <$I as BN<$D, $N>>::any();
            let (na, nb) = (dneg(&ad), dneg(&bd));
            let ma: [$D; $N] = XD::<$D, M>::from_s(&ad).abs().low::<$N>();
            let mb: [$D; $N] = XD::<$D, M>::from_s(&bd).abs().low::<$N>();
            $crate::c02::uf_setup::<$D, $N>(&ma, &mb);
            // |a| * |b| exactly, 2N digits; the signed product is +- that
            let mag: [$D; $N2] = $crate::c02::uf_product::<$D, $N2>();
            let neg = na != nb;
            // representable: mag <= 2^(BITS-1) - 1, or mag == 2^(BITS-1) when negative
            let mut hi_zero = true;
            let mut k = $N;
            while k < $N2 { hi_zero &= mag[k] == 0; k += 1; }
            let top_set = mag[$N - 1].to_u64() >> (<$D>::BITS - 1) == 1;
            let mut low_rest_zero = mag[$N - 1].to_u64() << 1 & <$D as Dig>::MAXD.to_u64() == 0;
            let mut k = 0;
            while k + 1 < $N { low_rest_zero &= mag[k] == 0; k += 1; }
            let fits = hi_zero && (!top_set || (neg && low_rest_zero));
            // expected low half: mag or its two's complement
            let lowmag: [$D; $N] = { let mut o = [0; $N]; let mut k = 0; while k < $N { o[k] = mag[k]; k += 1; } o };
            let expect: [$D; $N] = if neg { XD::<$D, M>::from_u(&lowmag).neg().low::<$N>() } else { lowmag };
            let (v, f) = a.overflowing_mul(b);
            assert!(deq(&v.dg(), &expect), "a * b reduced into the type's range");
            assert!(f == !fits, "flag exactly when a * b lies outside [MIN, MAX]");
            let s = a.saturating_mul(b).dg();
            if fits { assert!(deq(&s, &expect)); } else {
                let mut k = 0;
                while k < $N {
                    let e: u64 = if neg { if k == $N - 1 { 1u64 << (<$D>::BITS - 1) } else { 0 } }
                                 else if k == $N - 1 { <$D as Dig>::MAXD.to_u64() >> 1 } else { <$D as Dig>::MAXD.to_u64() };
                    assert!(s[k].to_u64() == e, "saturates toward the sign of the exact product");
                    k += 1;
                }
            }
            match a.checked_mul(b) { Some(c) => assert!(fits && deq(&c.dg(), &expect)), None => assert!(!fits) }
            assert!(!unsafe { $crate::c02::UF_MISS }, "every digit product taken is a product of two operand magnitude digits");
            $crate::reach!(fits && neg && top_set, "product lands exactly on MIN");
            $crate::reach!(!fits && hi_zero && !neg, "product == 2^(BITS-1) or just above: flag from the sign bit");
            $crate::reach!(!fits && neg, "negative overflow");
        });
    };
}

// ------------------------------------------------------------------------------------------------ ALPHA
/// exact arithmetic, alphabet digits, width <= 64 so that the product fits u128
#[macro_export]
macro_rules! c02_alpha {
    ($name:ident, $unw:expr, $U:ty, $I:ty, $D:ty, $N:expr) => {
        $crate::harness!($name, $unw, {
            use $crate::util::*;
            const W: u32 = <$D>::BITS * $N;
            let (a, ad) = <$U as BN<$D, $N>>::any_alpha();
            let (b, bd) = <$U as BN<$D, $N>>::any_alpha();
            let (c, cd) = <$U as BN<$D, $N>>::any_alpha();
            let mask: u128 = if W == 128 { u128::MAX } else { (1u128 << W) - 1 };
            let p = dval_u128(&ad) * dval_u128(&bd); // W <= 64: exact
            let (v, f) = a.overflowing_mul(b);
            assert!(dval_u128(&v.dg()) == p & mask && f == (p >> W != 0), "unsigned overflowing_mul");
            let (lo, hi) = a.widening_mul(b);
            assert!(dval_u128(&lo.dg()) == p & mask && dval_u128(&hi.dg()) == p >> W, "widening_mul");
            let q = p + dval_u128(&cd);
            let (lo, hi) = a.carrying_mul(b, c);
            assert!(dval_u128(&lo.dg()) == q & mask && dval_u128(&hi.dg()) == q >> W, "carrying_mul");
            let (sa, sb) = (<$I>::from_bits(a), <$I>::from_bits(b));
            let sp = dval_i128(&ad) * dval_i128(&bd);
            let fits = sp >= -(1i128 << (W - 1)) && sp < (1i128 << (W - 1));
            let (v, f) = sa.overflowing_mul(sb);
            assert!(dval_u128(&v.dg()) == (sp as u128) & mask && f == !fits, "signed overflowing_mul");
            let e = if fits { sp } else if sp < 0 { -(1i128 << (W - 1)) } else { (1i128 << (W - 1)) - 1 };
            assert!(dval_i128(&sa.saturating_mul(sb).dg()) == e, "signed saturating_mul");
            $crate::reach!(f && sp < 0, "signed negative overflow");
            $crate::reach!(p >> W != 0 && q >> W != p >> W, "carry into the high word");
        });
    };
}

/// level 0 (public API, N = 1): the digit product kernel of each digit type against the double-width primitive product
#[macro_export]
macro_rules! c02_kernel {
    ($name:ident, $unw:expr, $U:ty, $D:ty, $DD:ty) => {
        $crate::harness!($name, $unw, {
            use $crate::util::*;
            let (a, ad) = <$U as BN<$D, 1>>::any();
            let (b, bd) = <$U as BN<$D, 1>>::any();
            let (c, cd) = <$U as BN<$D, 1>>::any();
            let p = ad[0] as $DD * bd[0] as $DD;
            let (lo, hi) = a.widening_mul(b);
            assert!(lo.dg()[0] == p as $D && hi.dg()[0] == (p >> <$D>::BITS) as $D, "widening_mul splits the exact digit product");
            let q = p + cd[0] as $DD;
            let (lo, hi) = a.carrying_mul(b, c);
            assert!(lo.dg()[0] == q as $D && hi.dg()[0] == (q >> <$D>::BITS) as $D, "carrying_mul adds the carry exactly");
            let (v, f) = a.overflowing_mul(b);
            assert!(v.dg()[0] == p as $D && f == (p >> <$D>::BITS != 0), "single-digit overflowing_mul");
            $crate::reach!(f, "overflow");
        });
    };
}

/// level 0 through the source hook: the private digit kernel `digit::*::carrying_mul` / `widening_mul` with all four
/// arguments symbolic returns split(carry + current + a * b) and never overflows the double digit
#[macro_export]
macro_rules! c02_kernel_hook {
    ($name:ident, $unw:expr, $m:ident, $D:ty, $DD:ty) => {
        $crate::harness!($name, $unw, {
            let a: $D = $crate::nd::nd();
            let b: $D = $crate::nd::nd();
            let carry: $D = $crate::nd::nd();
            let current: $D = $crate::nd::nd();
            let s = a as $DD * b as $DD + carry as $DD + current as $DD; // <= (B-1)^2 + 2(B-1) = B^2 - 1: cannot overflow
            let (lo, hi) = bnum::verif_hooks::$m::carrying_mul(a, b, carry, current);
            assert!(lo == s as $D && hi == (s >> <$D>::BITS) as $D, "carrying_mul == split(carry + current + a * b)");
            let (lo, hi) = bnum::verif_hooks::$m::widening_mul(a, b);
            let p = a as $DD * b as $DD;
            assert!(lo == p as $D && hi == (p >> <$D>::BITS) as $D, "widening_mul == split(a * b)");
            $crate::reach!(hi == <$D>::MAX - 1, "maximal high digit of a product");
        });
    };
}

/// u64-limb view of a digit array (L limbs, zero padded)
#[inline(always)]
pub fn limbs_of<D: crate::util::Dig, const N: usize, const L: usize>(d: &[D; N]) -> [u64; L] {
    let per = 64 / D::BITS as usize;
    let mut o = [0u64; L];
    let mut k = 0;
    while k < N { if k / per < L { o[k / per] |= d[k].to_u64() << ((k % per) as u32 * D::BITS); } k += 1; }
    o
}
/// exact 2L-limb product of two L-limb numbers (+ an L-limb addend)
#[inline(always)]
pub fn limb_mul_add<const L: usize, const L2: usize>(a: &[u64; L], b: &[u64; L], c: &[u64; L]) -> [u64; L2] {
    let mut acc = [0u64; L2];
    let mut k = 0;
    while k < L { acc[k] = c[k]; k += 1; }
    let mut i = 0;
    while i < L {
        let mut carry: u128 = 0;
        let mut j = 0;
        while j < L {
            let t = (a[i] as u128) * (b[j] as u128) + acc[i + j] as u128 + carry;
            acc[i + j] = t as u64;
            carry = t >> 64;
            j += 1;
        }
        // propagate the row carry
        let mut k = i + L;
        while k < L2 { let t = acc[k] as u128 + carry; acc[k] = t as u64; carry = t >> 64; k += 1; }
        i += 1;
    }
    acc
}

/// Exact multiplication with ONE CONCRETE operand (the other operand and the carry word fully symbolic): the digit products are products by
/// constants, which the solver decides at widths (64..192 bits) where the two-symbolic-operand multiplier stops at 16 bits.  BITS a multiple of 64.
#[macro_export]
macro_rules! c02_cmul {
    ($name:ident, $unw:expr, $U:ty, $I:ty, $D:ty, $N:expr, $L:expr, $L2:expr, [$($bv:expr),*]) => {
        $crate::harness!($name, $unw, {
            use $crate::util::*;
            use $crate::c02::{limbs_of, limb_mul_add};
            let (a, ad) = <$U as BN<$D, $N>>::any();
            let (c, cd) = <$U as BN<$D, $N>>::any();
            let bd: [$D; $N] = [$($bv),*];
            let b = <$U as BN<$D, $N>>::mk(bd);
            let (al, bl, cl): ([u64; $L], [u64; $L], [u64; $L]) = (limbs_of(&ad), limbs_of(&bd), limbs_of(&cd));
            let zero = [0u64; $L];
            let p: [u64; $L2] = limb_mul_add(&al, &bl, &zero);
            let q: [u64; $L2] = limb_mul_add(&al, &bl, &cl);
            let mut hi_nz = false;
            let mut k = $L;
            while k < $L2 { hi_nz |= p[k] != 0; k += 1; }
            let j: usize = $crate::nd::nd();
            $crate::nd::assume(j < $L);
            let (v, f) = a.overflowing_mul(b);
            let vl: [u64; $L] = limbs_of(&v.dg());
            assert!(vl[j] == p[j] && f == hi_nz, "unsigned overflowing_mul: low half and flag");
            let (v2, f2) = b.overflowing_mul(a);
            assert!(limbs_of::<$D, $N, $L>(&v2.dg())[j] == p[j] && f2 == hi_nz, "commuted operands");
            match a.checked_mul(b) { Some(x) => assert!(!hi_nz && limbs_of::<$D, $N, $L>(&x.dg())[j] == p[j], "checked_mul Some"), None => assert!(hi_nz, "checked_mul None") }
            assert!(limbs_of::<$D, $N, $L>(&a.wrapping_mul(b).dg())[j] == p[j], "wrapping_mul");
            assert!(limbs_of::<$D, $N, $L>(&a.saturating_mul(b).dg())[j] == if hi_nz { u64::MAX } else { p[j] }, "saturating_mul");
            let (lo, hi) = a.widening_mul(b);
            assert!(limbs_of::<$D, $N, $L>(&lo.dg())[j] == p[j] && limbs_of::<$D, $N, $L>(&hi.dg())[j] == p[$L + j], "widening_mul");
            let (lo, hi) = a.carrying_mul(b, c);
            assert!(limbs_of::<$D, $N, $L>(&lo.dg())[j] == q[j] && limbs_of::<$D, $N, $L>(&hi.dg())[j] == q[$L + j], "carrying_mul");
            // signed: product of the two's-complement readings
            let (sa, sb) = (<$I>::from_bits(a), <$I>::from_bits(b));
            let (na, nb) = (dneg(&ad), dneg(&bd));
            let ma: [$D; $N] = if na { XD::<$D, { $N + 1 }>::from_s(&ad).neg().low() } else { ad };
            let mb: [$D; $N] = if nb { XD::<$D, { $N + 1 }>::from_s(&bd).neg().low() } else { bd };
            let mp: [u64; $L2] = limb_mul_add(&limbs_of::<$D, $N, $L>(&ma), &limbs_of::<$D, $N, $L>(&mb), &zero);
            let negp = na != nb;
            // |product| fits: below 2^(BITS-1), or exactly 2^(BITS-1) for a negative product
            let mut high = false;
            let mut k = $L;
            while k < $L2 { high |= mp[k] != 0; k += 1; }
            let top = mp[$L - 1] >> 63 == 1;
            let mut low_zero = mp[$L - 1] << 1 == 0;
            let mut k = 0;
            while k + 1 < $L { low_zero &= mp[k] == 0; k += 1; }
            let fits = !high && (!top || (negp && low_zero));
            let (sv, sf) = sa.overflowing_mul(sb);
            assert!(sf == !fits, "signed overflowing_mul flag");
            // wrapped value: low half of +-|product|
            let svl: [u64; $L] = limbs_of(&sv.dg());
            let mut low = [0u64; $L];
            let mut k = 0;
            while k < $L { low[k] = mp[k]; k += 1; }
            if negp { // two's complement negate
                let mut carry = true;
                let mut k = 0;
                while k < $L { let (s, c1) = (!low[k]).overflowing_add(carry as u64); low[k] = s; carry = c1; k += 1; }
            }
            assert!(svl[j] == low[j], "signed overflowing_mul value");
            let sat: [u64; $L] = limbs_of(&sa.saturating_mul(sb).dg());
            let e = if fits { low[j] } else if negp { if j == $L - 1 { 1u64 << 63 } else { 0 } } else if j == $L - 1 { u64::MAX >> 1 } else { u64::MAX };
            assert!(sat[j] == e, "signed saturating_mul");
            $crate::reach!(hi_nz, "unsigned overflow");
            $crate::reach!(!hi_nz && !dzero(&ad), "unsigned representable, non-zero operand");
            $crate::reach!(!fits, "signed overflow");
            $crate::reach!(fits && negp, "negative representable product");
        });
    };
}

/// exact predicates "the product of the two readings is not representable" (limb oracle; BITS a multiple of 64)
pub fn umul_overflows<D: crate::util::Dig, const N: usize, const L: usize, const L2: usize>(ad: &[D; N], bd: &[D; N]) -> bool {
    let zero = [0u64; L];
    let p: [u64; L2] = limb_mul_add(&limbs_of::<D, N, L>(ad), &limbs_of::<D, N, L>(bd), &zero);
    let mut hi = false;
    let mut k = L;
    while k < L2 { hi |= p[k] != 0; k += 1; }
    hi
}
pub fn smul_overflows<D: crate::util::Dig, const N: usize, const M: usize, const L: usize, const L2: usize>(ad: &[D; N], bd: &[D; N]) -> bool {
    use crate::util::*;
    let (na, nb) = (dneg(ad), dneg(bd));
    let ma: [D; N] = if na { XD::<D, M>::from_s(ad).neg().low() } else { *ad };
    let mb: [D; N] = if nb { XD::<D, M>::from_s(bd).neg().low() } else { *bd };
    let zero = [0u64; L];
    let mp: [u64; L2] = limb_mul_add(&limbs_of::<D, N, L>(&ma), &limbs_of::<D, N, L>(&mb), &zero);
    let negp = na != nb;
    let mut high = false;
    let mut k = L;
    while k < L2 { high |= mp[k] != 0; k += 1; }
    let top = mp[L - 1] >> 63 == 1;
    let mut low_zero = mp[L - 1] << 1 == 0;
    let mut k = 0;
    while k + 1 < L { low_zero &= mp[k] == 0; k += 1; }
    !(!high && (!top || (negp && low_zero)))
}
