//! Oracle-side helpers.  Nothing here calls into bnum: values are taken from / given to bnum only as raw
//! digit arrays (`from_digits` / `digits()`), and all reference arithmetic is byte-wise ripple arithmetic on
//! little-endian byte arrays, written for obviousness.

use core::cmp::Ordering;

pub trait Dig: Copy + crate::nd::Nd + PartialEq + core::fmt::Debug {
    const BYTES: usize;
    const BITS: u32;
    const ZERO: Self;
    const MAXD: Self;
    fn byte(self, k: usize) -> u8;
    fn from_le(b: &[u8]) -> Self;
    fn to_u64(self) -> u64;
    fn from_u64(v: u64) -> Self;
}
macro_rules! dig {
    ($($t:ty),*) => {$(
        impl Dig for $t {
            const BYTES: usize = core::mem::size_of::<$t>();
            const BITS: u32 = <$t>::BITS;
            const ZERO: Self = 0;
            const MAXD: Self = <$t>::MAX;
            #[inline(always)] fn byte(self, k: usize) -> u8 { (self >> (8 * k as u32)) as u8 }
            #[inline(always)] fn from_le(b: &[u8]) -> Self {
                let mut v: $t = 0;
                let mut k = 0;
                while k < Self::BYTES { v |= (b[k] as $t) << (8 * k as u32); k += 1; }
                v
            }
            #[inline(always)] fn to_u64(self) -> u64 { self as u64 }
            #[inline(always)] fn from_u64(v: u64) -> Self { v as $t }
        }
    )*};
}
dig!(u8, u16, u32, u64);

/// little-endian bytes of a digit array
#[inline(always)]
pub fn to_bytes<D: Dig, const N: usize, const B: usize>(d: &[D; N]) -> [u8; B] {
    let mut out = [0u8; B];
    let mut i = 0;
    while i < B {
        out[i] = d[i / D::BYTES].byte(i % D::BYTES);
        i += 1;
    }
    out
}

/// digit array from little-endian bytes
#[inline(always)]
pub fn to_digits<D: Dig, const N: usize, const B: usize>(b: &[u8; B]) -> [D; N] {
    let mut out = [D::ZERO; N];
    let mut i = 0;
    while i < N {
        out[i] = D::from_le(&b[i * D::BYTES..(i + 1) * D::BYTES]);
        i += 1;
    }
    out
}

/// Digit over the 8-value boundary alphabet {0,1,2,B/2-1,B/2,B/2+1,B-2,B-1}, selected by a symbolic 3-bit code.
#[inline(always)]
pub fn alpha<D: Dig>() -> D {
    let c: u8 = crate::nd::nd();
    crate::nd::assume(c < 8);
    let half = 1u64 << (D::BITS - 1);
    let max = D::MAXD.to_u64();
    let v = match c {
        0 => 0,
        1 => 1,
        2 => 2,
        3 => half - 1,
        4 => half,
        5 => half + 1,
        6 => max - 1,
        _ => max,
    };
    D::from_u64(v)
}

#[inline(always)]
pub fn alpha_digits<D: Dig, const N: usize>() -> [D; N] {
    core::array::from_fn(|_| alpha::<D>())
}

#[inline(always)]
pub fn bit<const B: usize>(a: &[u8; B], i: usize) -> bool {
    (a[i / 8] >> (i % 8)) & 1 == 1
}

#[inline(always)]
pub fn bytes_eq<const B: usize>(a: &[u8; B], b: &[u8; B]) -> bool {
    let mut i = 0;
    let mut eq = true;
    while i < B {
        eq &= a[i] == b[i];
        i += 1;
    }
    eq
}

#[inline(always)]
pub fn is_zero<const B: usize>(a: &[u8; B]) -> bool {
    let mut i = 0;
    let mut z = true;
    while i < B {
        z &= a[i] == 0;
        i += 1;
    }
    z
}

#[inline(always)]
pub fn u128_of<const B: usize>(a: &[u8; B]) -> u128 {
    let mut v = 0u128;
    let mut i = 0;
    while i < B && i < 16 {
        v |= (a[i] as u128) << (8 * i as u32);
        i += 1;
    }
    v
}
/// sign-extended reading (B <= 16)
#[inline(always)]
pub fn i128_of<const B: usize>(a: &[u8; B]) -> i128 {
    let v = u128_of(a);
    if B >= 16 { return v as i128; }
    let sh = 128 - 8 * B as u32;
    ((v << sh) as i128) >> sh
}
#[inline(always)]
pub fn bytes_of_u128<const B: usize>(v: u128) -> [u8; B] {
    let mut out = [0u8; B];
    let mut i = 0;
    while i < B {
        out[i] = if i < 16 { (v >> (8 * i as u32)) as u8 } else { 0 };
        i += 1;
    }
    out
}
#[inline(always)]
pub fn bytes_of_i128<const B: usize>(v: i128) -> [u8; B] {
    let mut out = [0u8; B];
    let mut i = 0;
    while i < B {
        out[i] = if i < 16 { (v >> (8 * i as u32)) as u8 } else if v < 0 { 0xff } else { 0 };
        i += 1;
    }
    out
}

/// Exact integer in W-byte two's complement.  W is chosen by the instantiation so that no operation used
/// on it can overflow (W = B + 2 for sums/differences of B-byte values).
#[derive(Clone, Copy)]
pub struct X<const W: usize>(pub [u8; W]);

impl<const W: usize> X<W> {
    #[inline(always)]
    pub fn zero() -> Self { X([0u8; W]) }
    #[inline(always)]
    pub fn small(v: i8) -> Self {
        let mut o = [if v < 0 { 0xffu8 } else { 0 }; W];
        o[0] = v as u8;
        X(o)
    }
    /// zero-extend an unsigned B-byte value
    #[inline(always)]
    pub fn from_u<const B: usize>(a: &[u8; B]) -> Self {
        let mut o = [0u8; W];
        let mut i = 0;
        while i < B { o[i] = a[i]; i += 1; }
        X(o)
    }
    /// sign-extend a signed B-byte value
    #[inline(always)]
    pub fn from_s<const B: usize>(a: &[u8; B]) -> Self {
        let fill = if a[B - 1] & 0x80 != 0 { 0xffu8 } else { 0 };
        let mut o = [fill; W];
        let mut i = 0;
        while i < B { o[i] = a[i]; i += 1; }
        X(o)
    }
    #[inline(always)]
    pub fn from_val<const B: usize>(a: &[u8; B], signed: bool) -> Self {
        if signed { Self::from_s(a) } else { Self::from_u(a) }
    }
    #[inline(always)]
    pub fn is_neg(&self) -> bool { self.0[W - 1] & 0x80 != 0 }
    #[inline(always)]
    pub fn is_zero(&self) -> bool { is_zero(&self.0) }
    #[inline(always)]
    pub fn add(&self, o: &Self) -> Self {
        let mut r = [0u8; W];
        let mut c = 0u16;
        let mut i = 0;
        while i < W {
            let s = self.0[i] as u16 + o.0[i] as u16 + c;
            r[i] = s as u8;
            c = s >> 8;
            i += 1;
        }
        X(r)
    }
    #[inline(always)]
    pub fn not(&self) -> Self {
        let mut r = [0u8; W];
        let mut i = 0;
        while i < W { r[i] = !self.0[i]; i += 1; }
        X(r)
    }
    #[inline(always)]
    pub fn neg(&self) -> Self { self.not().add(&Self::small(1)) }
    #[inline(always)]
    pub fn sub(&self, o: &Self) -> Self { self.add(&o.neg()) }
    #[inline(always)]
    pub fn abs(&self) -> Self { if self.is_neg() { self.neg() } else { *self } }
    /// signed comparison
    #[inline(always)]
    pub fn cmp(&self, o: &Self) -> Ordering {
        let d = self.sub(o); // cannot overflow by choice of W
        if d.is_zero() { Ordering::Equal } else if d.is_neg() { Ordering::Less } else { Ordering::Greater }
    }
    #[inline(always)]
    pub fn lt(&self, o: &Self) -> bool { self.cmp(o) == Ordering::Less }
    /// floor(self / 2)
    #[inline(always)]
    pub fn half_floor(&self) -> Self {
        let mut r = [0u8; W];
        let mut i = 0;
        while i < W {
            let hi = if i + 1 < W { self.0[i + 1] } else if self.is_neg() { 0xff } else { 0 };
            r[i] = (self.0[i] >> 1) | (hi << 7);
            i += 1;
        }
        X(r)
    }
    #[inline(always)]
    pub fn is_odd(&self) -> bool { self.0[0] & 1 == 1 }
    /// value lies in [0, 2^(8B))
    #[inline(always)]
    pub fn fits_u<const B: usize>(&self) -> bool {
        let mut ok = true;
        let mut i = B;
        while i < W { ok &= self.0[i] == 0; i += 1; }
        ok
    }
    /// value lies in [-2^(8B-1), 2^(8B-1))
    #[inline(always)]
    pub fn fits_s<const B: usize>(&self) -> bool {
        let fill = if self.0[B - 1] & 0x80 != 0 { 0xffu8 } else { 0 };
        let mut ok = true;
        let mut i = B;
        while i < W { ok &= self.0[i] == fill; i += 1; }
        ok
    }
    #[inline(always)]
    pub fn fits<const B: usize>(&self, signed: bool) -> bool {
        if signed { self.fits_s::<B>() } else { self.fits_u::<B>() }
    }
    /// the value reduced mod 2^(8B)
    #[inline(always)]
    pub fn low<const B: usize>(&self) -> [u8; B] {
        let mut o = [0u8; B];
        let mut i = 0;
        while i < B { o[i] = self.0[i]; i += 1; }
        o
    }
}

#[inline(always)]
pub fn max_u<const B: usize>() -> [u8; B] { [0xff; B] }
#[inline(always)]
pub fn max_s<const B: usize>() -> [u8; B] { let mut o = [0xff; B]; o[B - 1] = 0x7f; o }
#[inline(always)]
pub fn min_s<const B: usize>() -> [u8; B] { let mut o = [0; B]; o[B - 1] = 0x80; o }

/// clamp an exact value into the B-byte range
#[inline(always)]
pub fn saturate<const B: usize, const W: usize>(x: &X<W>, signed: bool) -> [u8; B] {
    if x.fits::<B>(signed) {
        x.low::<B>()
    } else if x.is_neg() {
        if signed { min_s::<B>() } else { [0; B] }
    } else if signed {
        max_s::<B>()
    } else {
        max_u::<B>()
    }
}
