"""Instantiation matrix and harness registry (single source of truth).

Every harness is one (macro, instantiation, bound) triple; `gen.py` renders the Rust instantiation lines
into /verif/harness/src/gen/<prop>.rs and the driver schedules the same list.
"""
from dataclasses import dataclass, field

DIG = {'u8': (8, 'D8', 'BUintD8', 'BIntD8'), 'u16': (16, 'D16', 'BUintD16', 'BIntD16'),
       'u32': (32, 'D32', 'BUintD32', 'BIntD32'), 'u64': (64, 'D64', 'BUint', 'BInt')}


@dataclass(frozen=True)
class Inst:
    digit: str
    n: int

    @property
    def dbits(self): return DIG[self.digit][0]
    @property
    def bits(self): return self.dbits * self.n
    @property
    def bytes(self): return self.bits // 8
    @property
    def tag(self): return f"{DIG[self.digit][1].lower()}x{self.n}"
    @property
    def U(self): return f"bnum::{DIG[self.digit][2]}<{self.n}>"
    @property
    def I(self): return f"bnum::{DIG[self.digit][3]}<{self.n}>"
    @property
    def label(self): return f"{DIG[self.digit][1]}x{self.n} ({self.bits} bits)"
    def std(self):
        """the standard macro argument tail: U, I, D, N, B"""
        return f"{self.U}, {self.I}, {self.digit}, {self.n}, {self.bytes}"


def I(d, n):
    return Inst({8: 'u8', 16: 'u16', 32: 'u32', 64: 'u64'}[d], n)


# LIN family (DESIGN section 3)
LIN_Q = [I(8, 1), I(8, 2), I(8, 3), I(16, 2), I(32, 2), I(64, 1), I(64, 2), I(64, 3)]
LIN_T = [I(8, 4), I(8, 5), I(8, 8), I(8, 17), I(16, 1), I(16, 3), I(16, 5), I(32, 1), I(32, 3), I(32, 5),
         I(64, 4), I(64, 5)]


@dataclass
class H:
    prop: str
    name: str
    macro: str
    args: str                 # macro arguments after the harness name
    tier: str = 'quick'       # 'quick' (both tiers) or 'thorough'
    mode: str = 'dbg'         # 'dbg' = debug assertions + overflow checks on, 'rel' = both off
    cap: int = 300            # seconds
    core: bool = True         # undecided core harness => machinery failure (exit 2)
    kind: str = 'normal'      # 'normal' | 'panic' (must-panic harness) | 'kf' (expected-to-fail known finding twin)
    stub: bool = False        # needs -Z stubbing
    mem_gb: int = 16
    inst: str = ''
    bound: str = ''           # human-readable bound of this harness
    funcs: str = ''           # API group encoded
    seeded: bool = False      # member of a VERIF_SEED-selected family in the quick tier
    crate: str = 'harness'


REG = []


def add(h):
    assert not any(x.name == h.name and x.mode == h.mode for x in REG), h.name
    REG.append(h)
    return h


def std(prop, macro, insts_q, insts_t, unwind=lambda i: i.bytes + 4, group='', bound='all operand values', **kw):
    """register `macro` for each instantiation with the standard argument tail"""
    for tier, insts in (('quick', insts_q), ('thorough', insts_t)):
        for i in insts:
            add(H(prop, f"{macro}_{i.tag}", macro, f"{unwind(i)}, {i.std()}", tier=tier, inst=i.label,
                  bound=f"{bound}; unwind {unwind(i)}", funcs=group, **kw))


# ---------------------------------------------------------------- C01
for m, g in [('c01_u_add', 'BUint overflowing/checked/wrapping/saturating_add, carrying_add, *_add_signed'),
             ('c01_u_sub', 'BUint overflowing/checked/wrapping/saturating_sub, borrowing_sub, *_neg, abs_diff, midpoint'),
             ('c01_i_add', 'BInt overflowing/checked/wrapping/saturating_add, carrying_add, *_add_unsigned'),
             ('c01_i_sub', 'BInt overflowing/checked/wrapping/saturating_sub, borrowing_sub, *_sub_unsigned'),
             ('c01_i_neg', 'BInt *_neg, *_abs, unsigned_abs, abs_diff, midpoint')]:
    std('C01', m, LIN_Q, LIN_T, group=g)
std('C01', 'c01_strict_ok', LIN_Q, LIN_T, group='strict_add/sub/neg/abs/add_signed/add_unsigned/sub_unsigned return the value when representable')
std('C01', 'c01_strict_panic', LIN_Q, LIN_T, group='strict_* panic on every overflowing input', kind='panic')


def by_prop(p):
    return [h for h in REG if h.prop == p]


PROPS = sorted({h.prop for h in REG})

# what lies outside each property's claim / assumptions beyond the common trusted base (evidence + MANIFEST)
OUTSIDE = {
    'C01': ['widths above 320 bits (N beyond the listed instantiations)'],
}
ASSUME = {
    'C01': ['from_digits/from_bits/digits()/to_bits are the identity on the digit array (decided under C13)'],
}

HOOK_COMMITS = []

# per-property claim texts for MANIFEST.json
CLAIMS = {
    'C01': dict(
        text='Bounded model checking of the compiled add/sub/neg/abs families: for each listed instantiation (8..320 bits, all four digit types, '
             'signed and unsigned) the SAT solver decides over ALL operand values and carry bits that every overflowing/checked/wrapping/'
             'saturating/strict form equals the projection of the exact (B+2)-byte result. Exhaustive in the operands, finite in the configuration matrix.',
        note='Kani/CBMC/CaDiCaL trusted; oracle = byte-wise exact arithmetic in the harness; widths above 320 bits not covered.',
        technique='Kani/CBMC bounded model checking of the real code against an exact-integer oracle (SAT)'),
}
NOT_APPLICABLE = {f'C{n:02d}': 'check not built yet in this revision of /verif (work in progress)' for n in range(1, 21)}
NOT_APPLICABLE['C12'] = ('formatting traits: Kani 0.68 mis-encodes the `if s.is_empty() {"0"} else {&s}` &str expression used by bnum fmt (spurious '
                         'counterexample independent of bnum) and core::fmt + String blows up past 17 GB for one symbolic 8-bit value; numeral content is decided under C11')
