"""Instantiation matrix and harness registry (single source of truth).

Every harness is one (macro, instantiation, bound) triple; `gen.py` renders the Rust instantiation lines
into /verif/harness/src/gen/<prop>.rs and the driver schedules the same list.
"""
from dataclasses import dataclass, field

DIG = {'u8': (8, 'D8', 'BUintD8', 'BIntD8'), 'u16': (16, 'D16', 'BUintD16', 'BIntD16'),
       'u32': (32, 'D32', 'BUintD32', 'BIntD32'), 'u64': (64, 'D64', 'BUint', 'BInt')}


@dataclass(frozen=True)
class Inst:
    digit: str
    n: int

    @property
    def dbits(self): return DIG[self.digit][0]
    @property
    def bits(self): return self.dbits * self.n
    @property
    def bytes(self): return self.bits // 8
    @property
    def tag(self): return f"{DIG[self.digit][1].lower()}x{self.n}"
    @property
    def U(self): return f"bnum::{DIG[self.digit][2]}<{self.n}>"
    @property
    def I(self): return f"bnum::{DIG[self.digit][3]}<{self.n}>"
    @property
    def label(self): return f"{DIG[self.digit][1]}x{self.n} ({self.bits} bits)"
    def std(self):
        """the standard macro argument tail: U, I, D, N, B"""
        return f"{self.U}, {self.I}, {self.digit}, {self.n}, {self.bytes}"


def I(d, n):
    return Inst({8: 'u8', 16: 'u16', 32: 'u32', 64: 'u64'}[d], n)


# LIN family (DESIGN section 3)
LIN_Q = [I(8, 1), I(8, 2), I(8, 3), I(16, 2), I(32, 2), I(64, 1), I(64, 2), I(64, 3)]
LIN_T = [I(8, 4), I(8, 5), I(8, 8), I(8, 17), I(16, 1), I(16, 3), I(16, 5), I(32, 1), I(32, 3), I(32, 5),
         I(64, 4), I(64, 5)]


@dataclass
class H:
    prop: str
    name: str
    macro: str
    args: str                 # macro arguments after the harness name
    tier: str = 'quick'       # 'quick' (both tiers) or 'thorough'
    mode: str = 'dbg'         # 'dbg' = debug assertions + overflow checks on, 'rel' = both off
    cap: int = 300            # seconds
    core: bool = True         # undecided core harness => machinery failure (exit 2)
    kind: str = 'normal'      # 'normal' | 'panic' (must-panic harness) | 'kf' (expected-to-fail known finding twin)
    stub: bool = False        # needs -Z stubbing
    mem_gb: int = 16
    inst: str = ''
    bound: str = ''           # human-readable bound of this harness
    funcs: str = ''           # API group encoded
    seeded: bool = False      # member of a VERIF_SEED-selected family in the quick tier
    crate: str = 'harness'


REG = []


def add(h):
    assert not any(x.name == h.name and x.mode == h.mode for x in REG), h.name
    REG.append(h)
    return h


def std(prop, macro, insts_q, insts_t, unwind=lambda i: i.bytes + 4, group='', bound='all operand values', **kw):
    """register `macro` for each instantiation with the standard argument tail"""
    for tier, insts in (('quick', insts_q), ('thorough', insts_t)):
        for i in insts:
            add(H(prop, f"{macro}_{i.tag}", macro, f"{unwind(i)}, {i.std()}", tier=tier, inst=i.label,
                  bound=f"{bound}; unwind {unwind(i)}", funcs=group, **kw))


# ---------------------------------------------------------------- C01
for m, g in [('c01_u_add', 'BUint overflowing/checked/wrapping/saturating_add, carrying_add, *_add_signed'),
             ('c01_u_sub', 'BUint overflowing/checked/wrapping/saturating_sub, borrowing_sub, *_neg, abs_diff, midpoint'),
             ('c01_i_add', 'BInt overflowing/checked/wrapping/saturating_add, carrying_add, *_add_unsigned'),
             ('c01_i_sub', 'BInt overflowing/checked/wrapping/saturating_sub, borrowing_sub, *_sub_unsigned'),
             ('c01_i_neg', 'BInt *_neg, *_abs, unsigned_abs, abs_diff, midpoint')]:
    std('C01', m, LIN_Q, LIN_T, group=g)
std('C01', 'c01_strict_ok', LIN_Q, LIN_T, group='strict_add/sub/neg/abs/add_signed/add_unsigned/sub_unsigned return the value when representable')
std('C01', 'c01_strict_panic', LIN_Q, LIN_T, group='strict_* panic on every overflowing input', kind='panic')


# ---------------------------------------------------------------- C05
U2 = lambda i: i.n + 2
for sg in ('u', 'i'):
    for dr in ('shl', 'shr'):
        for tier, insts in (('quick', LIN_Q), ('thorough', LIN_T)):
            for i in insts:
                T = i.U if sg == 'u' else i.I
                add(H('C05', f"c05_{sg}_{dr}_{i.tag}", 'c05_shift', f"{i.n + 2}, {T}, {i.digit}, {i.n}, {dr}", tier=tier, inst=i.label,
                      funcs=f"{'BUint' if sg == 'u' else 'BInt'} overflowing/checked/wrapping/unbounded/strict/unchecked_{dr}",
                      bound=f'all values, shift amount over all of u32, symbolic bit index; unwind {i.n + 2}', cap=600))
std('C05', 'c05_strict_panic', LIN_Q, LIN_T, unwind=U2, group='strict_shl/strict_shr panic for amount >= BITS', kind='panic',
    bound='all values, all amounts >= BITS')
for dr in ('left', 'right'):
    for tier, insts in (('quick', LIN_Q), ('thorough', LIN_T)):
        for i in insts:
            add(H('C05', f"c05_rot{dr[0]}_{i.tag}", 'c05_rot', f"{i.n + 2}, {i.U}, {i.I}, {i.digit}, {i.n}, {dr}", tier=tier, inst=i.label,
                  funcs=f"rotate_{dr} (BUint, BInt) + inverse law", cap=600,
                  bound=f'all values, rotation amount over all of u32, symbolic bit index; unwind {i.n + 2}'))


def both(prop, macro, insts_q, insts_t, unwind=lambda i: i.n + 2, signs=('u', 'i'), group='', bound='all operand values', **kw):
    """register a BN-generic macro (args: unwind, T, D, N) for unsigned and/or signed types"""
    for sg in signs:
        for tier, insts in (('quick', insts_q), ('thorough', insts_t)):
            for i in insts:
                T = i.U if sg == 'u' else i.I if sg == 'i' else f"{i.U}, {i.I}"
                nm = f"{macro}_{sg}_{i.tag}" if sg != 'x' else f"{macro}_{i.tag}"
                add(H(prop, nm, macro, f"{unwind(i)}, {T}, {i.digit}, {i.n}", tier=tier, inst=i.label,
                      funcs={'u': 'BUint ', 'i': 'BInt ', 'x': 'BUint+BInt '}[sg] + group, bound=f"{bound}; unwind {unwind(i)}", **kw))


# ---------------------------------------------------------------- C06
both('C06', 'c06_logic', LIN_Q, LIN_T, group='bitand/bitor/bitxor/not (+ operators), bit, is_zero, is_one', bound='all value pairs, symbolic bit index')
both('C06', 'c06_counts', LIN_Q, LIN_T, group='count_ones/zeros, leading/trailing_zeros/ones, bits', bound='all values, symbolic bit index')
both('C06', 'c06_perm', LIN_Q, LIN_T, group='swap_bytes, reverse_bits, is_power_of_two', bound='all values, symbolic bit / byte index')
both('C06', 'c06_u_bits', LIN_Q, LIN_T, signs=('u',), group='set_bit, power_of_two, checked/wrapping_next_power_of_two',
     bound='all values, all bit indices < BITS')

# ---------------------------------------------------------------- C07
both('C07', 'c07_cmp', LIN_Q, LIN_T, unwind=lambda i: i.bytes + 2, group='cmp/eq/ne/lt/le/gt/ge/min/max/clamp (inherent, Ord/PartialOrd/PartialEq, operators)',
     bound='all triples of values')
both('C07', 'c07_clamp_panic', LIN_Q, LIN_T, group='clamp panics when min > max', kind='panic', bound='all triples with min > max')
both('C07', 'c07_sign', LIN_Q, LIN_T, signs=('i',), group='signum, is_positive, is_negative')
HASH_Q = [I(8, 1), I(8, 3), I(16, 2), I(32, 2), I(64, 1), I(64, 2)]
HASH_T = [I(8, 5), I(16, 3), I(32, 3), I(64, 3), I(64, 5)]
both('C07', 'c07_hash', HASH_Q, HASH_T, unwind=lambda i: max(i.bytes, 8) + 2, group='derived Hash vs equality',
     bound='all pairs of values; recording hasher')


# ---------------------------------------------------------------- C09
CAST_T = [I(8, 1), I(8, 3), I(8, 5), I(16, 1), I(16, 3), I(32, 1), I(32, 3), I(64, 1), I(64, 2), I(64, 3)]
CAST_Q = [I(8, 1), I(8, 3), I(16, 1), I(16, 3), I(32, 1), I(64, 1), I(64, 2)]


def _cast_targets(insts):
    return ", ".join(f"({t}, {i.digit}, {i.n})" for i in insts for t in (i.U, i.I))


for tier, srcs, tg in (('quick', CAST_Q, CAST_Q), ('thorough', CAST_T, CAST_T)):
    for i in srcs:
        for sg, T in (('u', i.U), ('i', i.I)):
            nm = f"c09_from_{sg}_{i.tag}" + ('' if tier == 'quick' else '_all')
            add(H('C09', nm, 'c09_from', f"26, {T}, {i.digit}, {i.n}; {_cast_targets(tg)}", tier=tier, inst=i.label,
                  funcs=f"As/CastFrom from {'BUint' if sg == 'u' else 'BInt'} {i.label} to {2 * len(tg)} bnum types (all digit types, wider/narrower/equal, both signs)",
                  bound='all source values, symbolic target bit index; unwind 26', cap=600))
both('C09', 'c09_prim', CAST_Q, [i for i in CAST_T if i not in CAST_Q] + [I(8, 17), I(64, 5)], signs=('x',), unwind=lambda i: max(i.n, 16) + 2,
     group='<-> all 12 primitive integers, bool, char; cast_signed/cast_unsigned/to_bits/from_bits', bound='all source values, symbolic bit index')


# ---------------------------------------------------------------- C13
for tier, srcs, tg in (('quick', CAST_Q, CAST_Q), ('thorough', CAST_T, CAST_T)):
    for i in srcs:
        for sg, T in (('u', i.U), ('i', i.I)):
            nm = f"c13_btry_{sg}_{i.tag}" + ('' if tier == 'quick' else '_all')
            add(H('C13', nm, 'c13_btry', f"26, {T}, {i.digit}, {i.n}; {_cast_targets(tg)}", tier=tier, inst=i.label,
                  funcs=f"BTryFrom from {'BUint' if sg == 'u' else 'BInt'} {i.label} into {2 * len(tg)} bnum types",
                  bound='all source values, symbolic target bit index; unwind 26', cap=600))
both('C13', 'c13_prim', CAST_Q, [i for i in CAST_T if i not in CAST_Q] + [I(8, 17), I(64, 5)], signs=('x',), unwind=lambda i: max(i.n, 16) + 2,
     group='TryFrom into 12 primitives; From/TryFrom from primitives (targets >= source width), bool, char; from_digit(s)/digits/From<[D;N]>',
     bound='all source values, symbolic bit index')
for i, P in ((I(8, 1), 'u8'), (I(16, 1), 'u16'), (I(32, 1), 'u32'), (I(64, 1), 'u64'), (I(64, 2), 'u128'), (I(8, 4), 'u32')):
    add(H('C13', f"c13_kf_from_unsigned_eqwidth_{i.tag}", 'c13_kf_from_unsigned_eqwidth', f"{i.n + 2}, {i.I}, {i.digit}, {i.n}, {P}", kind='kf',
          tier='quick' if i.tag in ('d8x1', 'd64x1') else 'thorough', inst=i.label, funcs=f'From<{P}> for BInt of equal width', bound=f'all {P} values', core=False))


def by_prop(p):
    return [h for h in REG if h.prop == p]


PROPS = sorted({h.prop for h in REG})

# what lies outside each property's claim / assumptions beyond the common trusted base (evidence + MANIFEST)
OUTSIDE = {
    'C01': ['widths above 320 bits (N beyond the listed instantiations)'],
    'C05': ['widths above 320 bits', 'value of wrapping/overflowing shifts for amounts >= BITS on non-power-of-two widths (only flag/None asserted, as the property states)'],
    'C06': ['widths above 320 bits', 'bit / set_bit / power_of_two with index >= BITS'],
    'C07': ['widths above 320 bits'],
}
ASSUME = {
    'C01': ['from_digits/from_bits/digits()/to_bits are the identity on the digit array (decided under C13)'],
}

HOOK_COMMITS = []

# per-property claim texts for MANIFEST.json
def _claim(what, outside, oracle):
    return dict(
        text=f'Bounded model checking of the compiled bnum code (Kani -> CBMC -> SAT): {what} The SAT solver decides each harness over ALL values of its '
             f'symbolic inputs, so inside a listed instantiation the claim is exhaustive; across configurations it is a finite matrix (digit types u8/u16/u32/u64, '
             f'power-of-two and non-power-of-two widths, signed and unsigned), which is why this is model checking and not proof.',
        note=f'Trusted: Kani MIR->GOTO translation and its core/alloc models, CBMC bit-level semantics of primitive operators, CaDiCaL; oracle: {oracle}. '
             f'Outside the claim: {outside}',
        technique='Kani/CBMC bounded model checking of the real code against an independent oracle (SAT-decided, counterexamples replayed natively)')


CLAIMS = {
    'C01': _claim('every overflowing/checked/wrapping/saturating/strict form of add, sub, neg, abs (+ add_signed/add_unsigned/sub_unsigned, carrying_add, '
                  'borrowing_sub, abs_diff, unsigned_abs, midpoint) equals the projection of the exact result, for 8..320-bit instantiations.',
                  'widths above 320 bits.', 'exact two\'s-complement arithmetic two bytes wider than the type, written byte-wise in the harness'),
    'C05': _claim('shl/shr in all overflow modes (amount over all of u32) and rotate_left/right satisfy the bit-indexed specification for a symbolic bit position, '
                  'for 8..320-bit instantiations including 24/40/48/96/136/192/320-bit widths.',
                  'widths above 320 bits; the value of wrapping/overflowing shifts for amounts >= BITS on non-power-of-two widths (left open by the property).',
                  'bit-indexed specification out[i] = f(in, amount, i) with i symbolic'),
    'C06': _claim('and/or/xor/not, the seven count functions, bit/set_bit, power_of_two, is_power_of_two, checked/wrapping_next_power_of_two, swap_bytes and '
                  'reverse_bits satisfy their bit-indexed / defining-property specifications for 8..320-bit instantiations.',
                  'widths above 320 bits; bit()/set_bit()/power_of_two() with index >= BITS.',
                  'bit-indexed specification; counts by defining property with a symbolic witness index; population count as sum of primitive per-digit counts'),
    'C07': _claim('cmp/eq/ne/lt/le/gt/ge/min/max/clamp in inherent, trait and operator form agree with the sign of the exact difference of the denoted integers; '
                  'equality is digit-array identity; equal values feed identical streams to a recording Hasher; signum/is_positive/is_negative.',
                  'widths above 320 bits (hashing: above 320 bits; only the write stream of core::hash::Hash is observed).',
                  'sign of the exact (N+1)-digit difference'),
}
NOT_APPLICABLE = {f'C{n:02d}': 'check not built yet in this revision of /verif (work in progress)' for n in range(1, 21)}
NOT_APPLICABLE['C12'] = ('formatting traits: Kani 0.68 mis-encodes the `if s.is_empty() {"0"} else {&s}` &str expression used by bnum fmt (spurious '
                         'counterexample independent of bnum) and core::fmt + String blows up past 17 GB for one symbolic 8-bit value; numeral content is decided under C11')
