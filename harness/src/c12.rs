//! C12 - formatting traits print what Rust prints for a primitive of the same value.
//!
//! Decomposition (DESIGN.md section 11): every bnum formatting impl ends in ONE call
//! `f.pad_integral(is_nonnegative, prefix, numeral)` on the caller's `Formatter`; `pad_integral` is core's code and
//! is the single place where width, fill, alignment, `+`, `#` and `0` are applied - the primitives' impls end in the
//! same call.  So "same text as the primitive for every flag combination" follows from
//!   (a) bnum hands `pad_integral` exactly the triple (sign, prefix, numeral) the primitive hands it,
//!   (b) bnum leaves the Formatter's options untouched and writes nothing to it directly.
//! Under Kani `Formatter::pad_integral` is replaced (kani::stub) by a model that RECORDS its arguments and the
//! formatter options into `REC`; the harness asserts (a) against an independent numeral oracle (bit slicing for
//! binary / octal / hex, repeated division of a primitive for decimal and the exponent form) for ALL values, and (b)
//! by giving the formatter non-default options and comparing what the model saw, plus a byte count on the sink.
//! The digit-by-digit assembly of Binary / LowerHex / UpperHex writes each digit with `{:x}` / `{:0W$x}` into a
//! String; core's implementation of those for the primitive DIGIT types is replaced by a small model too (its
//! 128-byte scratch buffer with a symbolic start index is what makes the unstubbed query explode), and
//! `String::new` by `String::with_capacity(n)` (no reallocation; not observable).  The three models are validated
//! natively against the real core functions by `c12_models_validated` before any Kani job is trusted.
//! The recorded numeral is copied out of the argument BYTE BY BYTE: `copy_from_slice` (memcpy) from the
//! `if s.is_empty() { "0" } else { &s }` pointer is mis-encoded by Kani 0.68 / CBMC 6.11 (reproducer in DESIGN.md).
//! Natively (counterexample replay) nothing is stubbed: the harness compares the real text with the text the real
//! `pad_integral` produces from the oracle triple, and with the primitive's text where a primitive of that width exists.

use core::fmt::{self, Formatter, Write};

/// sink that only counts bytes
pub struct Null {
    pub count: usize,
}
impl Write for Null {
    fn write_str(&mut self, s: &str) -> fmt::Result {
        self.count += s.len();
        Ok(())
    }
}

pub const K: usize = 330;
pub struct Rec {
    pub calls: usize,
    pub nonneg: bool,
    pub prefix: [u8; 2],
    pub prefix_len: usize,
    pub buf: [u8; K],
    pub len: usize,
    pub written: usize,
    pub width: Option<usize>,
    pub plus: bool,
    pub alt: bool,
    pub zero: bool,
    pub fill: char,
    pub align: u8,
    pub precision: Option<usize>,
}
impl Rec {
    pub const EMPTY: Rec = Rec { calls: 0, nonneg: false, prefix: [0; 2], prefix_len: 0, buf: [0; K], len: 0, written: 0, width: None, plus: false, alt: false,
                                 zero: false, fill: ' ', align: 0, precision: None };
}
pub static mut REC: Rec = Rec::EMPTY;
static ZEROS: &str = "0000000000000000000000000000000000000000000000000000000000000000000000000000000000000000000000000000000000000000000000000000000000000000\
0000000000000000000000000000000000000000000000000000000000000000000000000000000000000000000000000000000000000000000000000000000000000000";

#[inline(always)]
pub fn align_code(f: &Formatter<'_>) -> u8 {
    match f.align() { None => 0, Some(fmt::Alignment::Left) => 1, Some(fmt::Alignment::Center) => 2, Some(fmt::Alignment::Right) => 3 }
}

/// Model of `core::fmt::Formatter::pad_integral` for ASCII arguments; it also records the arguments of the LAST call.
/// (`where 'a: 'a` makes the lifetime early-bound: Kani requires the stub to have the generic parameter count of the original.)
pub fn pad_integral_model<'a>(f: &mut Formatter<'a>, is_nonnegative: bool, prefix: &str, buf: &str) -> fmt::Result
where
    'a: 'a,
{
    let mut width = buf.len();
    let sign: Option<char> = if !is_nonnegative {
        width += 1;
        Some('-')
    } else if f.sign_plus() {
        width += 1;
        Some('+')
    } else {
        None
    };
    let alt = f.alternate();
    if alt {
        width += prefix.len();
    }
    let min = match f.width() { None => 0, Some(w) => w };
    let pad = if min > width { min - width } else { 0 };
    let zero = f.sign_aware_zero_pad();
    unsafe {
        REC.calls += 1;
        REC.nonneg = is_nonnegative;
        REC.prefix_len = prefix.len();
        let pb = prefix.as_bytes();
        if pb.len() > 0 { REC.prefix[0] = pb[0]; }
        if pb.len() > 1 { REC.prefix[1] = pb[1]; }
        let bb = buf.as_bytes();
        REC.len = bb.len();
        // byte loop on purpose (see module comment)
        let mut q = 0;
        while q < bb.len() && q < K { REC.buf[q] = bb[q]; q += 1; }
        REC.width = f.width();
        REC.plus = f.sign_plus();
        REC.alt = alt;
        REC.zero = zero;
        REC.fill = f.fill();
        REC.align = align_code(f);
        REC.precision = f.precision();
        REC.written = width + pad;
    }
    let (pre, post) = if zero {
        (0, 0)
    } else {
        match f.align() { Some(fmt::Alignment::Left) => (0, pad), Some(fmt::Alignment::Center) => (pad / 2, (pad + 1) / 2), _ => (pad, 0) }
    };
    let fill = f.fill();
    let mut i = 0;
    while i < pre { f.write_char(fill)?; i += 1; }
    if let Some(c) = sign { f.write_char(c)?; }
    if alt { f.write_str(prefix)?; }
    if zero && pad > 0 {
        let mut left = pad;
        while left > ZEROS.len() { f.write_str(ZEROS)?; left -= ZEROS.len(); }
        f.write_str(&ZEROS[..left])?;
    }
    f.write_str(buf)?;
    let mut i = 0;
    while i < post { f.write_char(fill)?; i += 1; }
    Ok(())
}

/// Model of `<digit as Binary/LowerHex/UpperHex>::fmt` for the two option sets bnum applies to a digit: plain, and zero-padded
/// to a width of at most the digit's full numeral length.  Any other option set is a modelling gap and fails the harness.
macro_rules! digit_model {
    ($name:ident, $D:ty, $lg:expr, $up:expr) => {
        pub fn $name(x: &$D, f: &mut Formatter<'_>) -> fmt::Result {
            const DIG: usize = (<$D>::BITS as usize + $lg - 1) / $lg;
            assert!(!f.alternate() && !f.sign_plus() && f.precision().is_none(), "digit model: option set not modelled");
            let w = match f.width() {
                None => 0,
                Some(w) => {
                    assert!(f.sign_aware_zero_pad() && w <= DIG, "digit model: only zero padding up to the full digit length is modelled");
                    w
                }
            };
            let bl = <$D>::BITS as usize - x.leading_zeros() as usize;
            let mut n = (bl + $lg - 1) / $lg;
            if n == 0 { n = 1; }
            if w > n { n = w; }
            // only the n characters that are printed are computed: the trip count is bounded by the value, not by the width of the type
            let mut arr = [b'0'; DIG];
            let mut p = 0;
            while p < n {
                let v = ((*x >> (p * $lg)) & ((1 << $lg) - 1)) as u8;
                arr[DIG - 1 - p] = if v < 10 { b'0' + v } else if $up { b'A' + (v - 10) } else { b'a' + (v - 10) };
                p += 1;
            }
            f.write_str(unsafe { core::str::from_utf8_unchecked(&arr[DIG - n..]) })
        }
    };
}
digit_model!(dm_b_u8, u8, 1, false);
digit_model!(dm_b_u16, u16, 1, false);
digit_model!(dm_b_u32, u32, 1, false);
digit_model!(dm_b_u64, u64, 1, false);
digit_model!(dm_x_u8, u8, 4, false);
digit_model!(dm_x_u16, u16, 4, false);
digit_model!(dm_x_u32, u32, 4, false);
digit_model!(dm_x_u64, u64, 4, false);
digit_model!(dm_ux_u8, u8, 4, true);
digit_model!(dm_ux_u16, u16, 4, true);
digit_model!(dm_ux_u32, u32, 4, true);
digit_model!(dm_ux_u64, u64, 4, true);
// u128 is not a digit type, but an implementation may route small values through the widest primitive: keep that path cheap as well
digit_model!(dm_b_u128, u128, 1, false);
digit_model!(dm_x_u128, u128, 4, false);
digit_model!(dm_ux_u128, u128, 4, true);


/// Model of `BUint*::to_str_radix` (the canonical lowercase numeral, computed by repeated division of a primitive): used by the
/// Display / Debug / Octal / LowerExp / UpperExp harnesses, which decide the formatting glue AROUND the numeral (sign, prefix, exponent
/// form, trailing-zero trimming, option pass-through); `to_str_radix` itself is decided under C11.  The real function builds a
/// `Vec` digit by digit and makes even the 8-bit query run out of memory behind `format!` (DESIGN.md section 11).
macro_rules! tsr_model {
    ($name:ident, $U:ident, $D:ty) => {
        pub fn $name<const N: usize>(x: &bnum::$U<N>, radix: u32) -> String {
            assert!(radix >= 2 && radix <= 36 && N * (<$D>::BITS as usize) <= 64, "to_str_radix model: widths up to 64 bits");
            let d = x.digits();
            let mut v: u64 = 0;
            let mut k = 0;
            while k < N { v |= (d[k] as u64) << (k as u32 * <$D>::BITS); k += 1; }
            let mut rev = [b'0'; 64];
            let mut n = 0usize;
            let r = radix as u64;
            loop {
                let c = (v % r) as u8;
                rev[n] = if c < 10 { b'0' + c } else { b'a' + (c - 10) };
                n += 1;
                v /= r;
                if v == 0 { break; }
            }
            let mut out = [b'0'; 64];
            let mut q = 0;
            while q < n { out[q] = rev[n - 1 - q]; q += 1; }
            let mut s = String::with_capacity(64);
            s.push_str(unsafe { core::str::from_utf8_unchecked(&out[..n]) });
            s
        }
    };
}
tsr_model!(tsr_u8, BUintD8, u8);
tsr_model!(tsr_u16, BUintD16, u16);
tsr_model!(tsr_u32, BUintD32, u32);
tsr_model!(tsr_u64, BUint, u64);

/// `core::str::slice_error_fail_rt` builds its panic message with `{:?}` of the string (Unicode tables, grapheme checks): on the panic path only,
/// but symbolic execution walks it.  The stub panics at once - same outcome (a reachable call is still a reported failure).
pub fn slice_error_fail_stub(_s: &str, _begin: usize, _end: usize) -> ! { panic!("failed to slice string") }

/// `core::result::unwrap_failed` formats a `&dyn Debug`; taking that function's address makes CBMC's signature-based function-pointer
/// resolution consider every Debug impl at every `Argument::fmt` call of core::fmt::write.  Same outcome: a panic.
pub fn unwrap_failed_stub(_msg: &str, _error: &dyn core::fmt::Debug) -> ! { panic!("called `Result::unwrap()` on an `Err` value") }

pub fn cap8() -> String { String::with_capacity(8) }
pub fn cap16() -> String { String::with_capacity(16) }
pub fn cap24() -> String { String::with_capacity(24) }
pub fn cap32() -> String { String::with_capacity(32) }
pub fn cap48() -> String { String::with_capacity(48) }
pub fn cap64() -> String { String::with_capacity(64) }
pub fn cap128() -> String { String::with_capacity(128) }
pub fn cap192() -> String { String::with_capacity(192) }
pub fn cap320() -> String { String::with_capacity(320) }


/// (native) formats an oracle triple through the REAL `pad_integral`
pub struct Tr<'a>(pub bool, pub &'a str, pub &'a str);
impl<'a> fmt::Display for Tr<'a> {
    fn fmt(&self, f: &mut Formatter<'_>) -> fmt::Result { f.pad_integral(self.0, self.1, self.2) }
}

/// the primitive's text for the same bit pattern, when a primitive of exactly that width exists
#[macro_export]
macro_rules! c12_prim_text {
    ($spec:expr, $w:expr, $signed:expr, $pat:expr) => {{
        let p: u128 = $pat;
        match ($w, $signed) {
            (8, false) => Some(format!($spec, p as u8)), (16, false) => Some(format!($spec, p as u16)), (32, false) => Some(format!($spec, p as u32)),
            (64, false) => Some(format!($spec, p as u64)), (128, false) => Some(format!($spec, p)),
            (8, true) => Some(format!($spec, p as u8 as i8)), (16, true) => Some(format!($spec, p as u16 as i16)), (32, true) => Some(format!($spec, p as u32 as i32)),
            (64, true) => Some(format!($spec, p as u64 as i64)), (128, true) => Some(format!($spec, p as i128)),
            _ => None,
        }
    }};
}


/// (native replay only) the same comparison over a battery of format specs, so that a deviation the solver found through the recorded
/// pad_integral call (a bypassed call, a changed option, a direct write) is confirmed by whichever spec makes it visible in the text.
/// `$k` is the format type as a string literal ("x", "X", "b", "o", "", "?", "e", "E").
#[macro_export]
macro_rules! c12_battery {
    ($k:literal, $x:expr, $tr:expr, $w:expr, $signed:expr, $pat:expr; $($fl:literal),*) => {$(
        {
            let text = format!(concat!("{:", $fl, $k, "}"), $x);
            let want = format!(concat!("{:", $fl, "}"), $tr);
            assert_eq!(text, want, "bnum text vs oracle triple through the real pad_integral (spec {{:{}{}}})", $fl, $k);
            if $w <= 128 {
                if let Some(p) = $crate::c12_prim_text!(concat!("{:", $fl, $k, "}"), $w, $signed, $pat) {
                    assert_eq!(text, p, "bnum text vs primitive text (spec {{:{}{}}})", $fl, $k);
                }
            }
        }
    )*};
}
#[macro_export]
macro_rules! c12_battery_all {
    ($k:literal, $x:expr, $tr:expr, $w:expr, $signed:expr, $pat:expr) => {
        $crate::c12_battery!($k, $x, $tr, $w, $signed, $pat; "", "+", "#", "+#", "0", "+0", "#0", "+#0", "5", "+5", "#5", "012", "+012", "#012", "+#012", "+#0200",
                             "<9", ">9", "^9", "*<9", "*>9", "*^9", "_<+9", "_^+#7", ">#20", "*<+#030", "0<9", "x^+40", "255", "<255", "+#0255");
    };
}

/// checks shared by all C12 harnesses: the options the (stubbed) pad_integral saw are the ones the format spec set
#[macro_export]
macro_rules! c12_passthrough {
    ($r:expr, $sink:expr, $W:expr, $P:expr, $A:expr, $Z:expr, $F:expr, $AL:expr) => {
        assert!($r.calls >= 1, "the impl ends in a pad_integral call");
        assert!($r.width == $W && $r.plus == $P && $r.alt == $A && $r.zero == $Z && $r.fill == $F && $r.align == $AL && $r.precision.is_none(),
                "the caller's Formatter options reach pad_integral unchanged");
        assert!($sink.count == $r.written, "nothing is written to the Formatter except through pad_integral");
    };
}


/// (Kani) builds a Formatter with SYMBOLIC options on the sink and calls the trait method directly.  `Formatter::new` / `FormattingOptions` are
/// unstable (feature `formatting_options`, enabled for the Kani toolchain only); calling `<T as Trait>::fmt` directly instead of `write!` also keeps
/// the impl under test out of the candidate set of CBMC's function-pointer resolution at the `Argument::fmt` calls inside core::fmt::write
/// (with `write!` the exponent forms, which call `format!` themselves, recurse through that candidate set and never finish).
/// Options: width None or 0..=16, any ASCII fill, every alignment, `+`, `#`, `0` - all symbolic.
#[macro_export]
macro_rules! c12_call {
    ($TR:path, $T:ty, $x:expr, $sink:expr) => { $crate::c12_call!($TR, $T, $x, $sink, 16) };
    ($TR:path, $T:ty, $x:expr, $sink:expr, $wmax:expr) => {{
        let w: u16 = $crate::nd::nd();
        let has_w: bool = $crate::nd::nd();
        $crate::nd::assume(w <= $wmax);
        let fill: u8 = $crate::nd::nd();
        $crate::nd::assume(fill >= 0x20 && fill < 0x7f);
        let al: u8 = $crate::nd::nd();
        $crate::nd::assume(al < 4);
        let plus: bool = $crate::nd::nd();
        let alt: bool = $crate::nd::nd();
        let zero: bool = $crate::nd::nd();
        let mut o = core::fmt::FormattingOptions::new();
        o.width(if has_w { Some(w) } else { None });
        o.fill(fill as char);
        o.align(match al { 1 => Some(core::fmt::Alignment::Left), 2 => Some(core::fmt::Alignment::Center), 3 => Some(core::fmt::Alignment::Right), _ => None });
        o.sign(if plus { Some(core::fmt::Sign::Plus) } else { None });
        o.alternate(alt);
        o.sign_aware_zero_pad(zero);
        unsafe { $crate::c12::REC = $crate::c12::Rec::EMPTY; }
        let res = {
            let mut f = core::fmt::Formatter::new(&mut $sink, o);
            <$T as $TR>::fmt(&$x, &mut f)
        };
        assert!(res.is_ok(), "formatting into an infallible sink succeeds");
        let r = unsafe { &*core::ptr::addr_of!($crate::c12::REC) };
        assert!(r.calls >= 1, "the impl ends in a pad_integral call");
        assert!(r.width == (if has_w { Some(w as usize) } else { None }) && r.plus == plus && r.alt == alt && r.zero == zero && r.fill == fill as char && r.align == al && r.precision.is_none(),
                "the caller's Formatter options reach pad_integral unchanged");
        assert!($sink.count == r.written, "nothing is written to the Formatter except through pad_integral");
        $crate::reach!(has_w && w == $wmax && plus && alt && zero, "all flags set");
        $crate::reach!(!has_w && !plus && !alt && !zero && al == 0, "default options");
        r
    }};
}
/// (native replay) consume the option draws of `c12_call!` so that the recorded values stay aligned
#[macro_export]
macro_rules! c12_skip_option_draws {
    () => {{
        let _w: u16 = $crate::nd::nd(); let _h: bool = $crate::nd::nd(); let _f: u8 = $crate::nd::nd(); let _a: u8 = $crate::nd::nd();
        let _p: bool = $crate::nd::nd(); let _al: bool = $crate::nd::nd(); let _z: bool = $crate::nd::nd();
    }};
}

/// Binary / LowerHex / UpperHex / Octal: numeral of the BITS-bit two's-complement pattern, by bit slicing.
/// `$lg` = bits per output digit, `$up` = uppercase, `$pc` = second prefix byte, `$maxlen` = ceil(BITS / lg).
/// `[$($stub),*]`: the Kani stubs (pad_integral recorder, String::new, the digit formatter of this trait).
#[macro_export]
macro_rules! c12_radix {
    ($name:ident, $unw:expr, $T:ty, $D:ty, $N:expr, $lg:expr, $up:expr, $pc:expr, $maxlen:expr, $k:literal, $TR:path, $gen:ident, [$($stub:meta),*]) => {
        $crate::harness_stub!($name, $unw, [$($stub),*], {
            use $crate::util::*;
            use core::fmt::Write;
            const DB: usize = <$D>::BITS as usize;
            const W: usize = DB * $N;
            let (x, xd) = <$T as BN<$D, $N>>::$gen();
            // oracle: bit length of the pattern, numeral length, digit j (0 = most significant)
            let mut bits = 0usize;
            let mut k = 0;
            while k < $N { if xd[k] != 0 { bits = k * DB + (DB - xd[k].leading_zeros() as usize); } k += 1; }
            let len = if bits == 0 { 1 } else { (bits + $lg - 1) / $lg };
            let digit_at = |j: usize| -> u8 {
                let pos = (len - 1 - j) * $lg;
                let mut v: u8 = 0;
                let mut t = 0;
                while t < $lg { let p = pos + t; if p < W && dbit(&xd, p as u32) { v |= 1 << t; } t += 1; }
                if v < 10 { b'0' + v } else if $up { b'A' + (v - 10) } else { b'a' + (v - 10) }
            };
            #[cfg(kani)]
            {
                let mut sink = $crate::c12::Null { count: 0 };
                let r = $crate::c12_call!($TR, $T, x, sink);
                assert!(r.nonneg, "radix forms are never negative (two's-complement pattern)");
                assert!(r.prefix_len == 2 && r.prefix[0] == b'0' && r.prefix[1] == $pc, "prefix 0b / 0o / 0x");
                assert!(r.len == len, "numeral length = ceil(bit length / bits per digit), 1 for zero");
                let j: usize = $crate::nd::nd();
                $crate::nd::assume(j < len);
                assert!(r.buf[j] == digit_at(j), "every character is the digit of the corresponding bit group");
            }
            #[cfg(not(kani))]
            {
                $crate::c12_skip_option_draws!();
                let j: usize = $crate::nd::nd();
                let mut num = String::new();
                let mut q = 0;
                while q < len { num.push(digit_at(q) as char); q += 1; }
                let pre = [b'0', $pc];
                let pat = if W <= 128 { dval_u128(&xd) } else { 0 };
                $crate::c12_battery_all!($k, x, $crate::c12::Tr(true, core::str::from_utf8(&pre).unwrap(), &num), W, <$T as BN<$D, $N>>::SIGNED, pat);
            }
            $crate::reach!(len == $maxlen, "full-length numeral");
            $crate::reach!(len == 1, "single digit");
        });
    };
}

/// Display / Debug / LowerExp / UpperExp: decimal numeral of |v| (widths <= 64 bits, `$ND` = maximal digit count) with the sign flag.
/// `$kind`: 0 = Display, 1 = Debug, 2 = LowerExp, 3 = UpperExp (selects how the oracle text is built; `$spec` selects the trait).
#[macro_export]
macro_rules! c12_dec {
    ($name:ident, $unw:expr, $T:ty, $D:ty, $N:expr, $ND:expr, $kind:expr, $k:literal, $TR:path, [$($stub:meta),*]) => {
        $crate::harness_stub!($name, $unw, [$($stub),*], {
            use $crate::util::*;
            use core::fmt::Write;
            const DB: usize = <$D>::BITS as usize;
            const W: usize = DB * $N;
            const ND: usize = $ND;
            const S: bool = <$T as BN<$D, $N>>::SIGNED;
            let (x, xd) = <$T as BN<$D, $N>>::any();
            let pat = dval_u128(&xd) as u64;
            let neg = S && dneg(&xd);
            let mag: u64 = if neg { (if W == 64 { 0u64 } else { 1u64 << W }).wrapping_sub(pat) } else { pat };
            // decimal digits of the magnitude, most significant first
            let mut dec = [0u8; ND];
            let mut nd = 0usize;
            {
                let mut rev = [0u8; ND];
                let mut m = mag;
                let mut c = 0;
                while c < ND { if m != 0 || c == 0 { rev[nd] = b'0' + (m % 10) as u8; nd += 1; m /= 10; } c += 1; }
                let mut c = 0;
                while c < ND { if c < nd { dec[c] = rev[nd - 1 - c]; } c += 1; }
            }
            // expected numeral
            let mut want = [0u8; ND + 5];
            let mut wl = 0usize;
            if $kind < 2 {
                let mut c = 0;
                while c < ND { if c < nd { want[c] = dec[c]; } c += 1; }
                wl = nd;
            } else {
                // d[.ddd]e<k>: k = digits - 1, trailing zeros of the mantissa trimmed
                let mut keep = nd;
                let mut c = ND;
                while c > 1 { if c == keep && dec[c - 1] == b'0' { keep -= 1; } c -= 1; }
                want[0] = dec[0];
                wl = 1;
                if keep > 1 {
                    want[1] = b'.';
                    wl = 2;
                    let mut c = 1;
                    while c < ND { if c < keep { want[wl] = dec[c]; wl += 1; } c += 1; }
                }
                want[wl] = if $kind == 2 { b'e' } else { b'E' };
                wl += 1;
                let e = nd - 1;
                if e >= 10 { want[wl] = b'0' + (e / 10) as u8; wl += 1; }
                want[wl] = b'0' + (e % 10) as u8;
                wl += 1;
            }
            #[cfg(kani)]
            {
                let mut sink = $crate::c12::Null { count: 0 };
                let r = $crate::c12_call!($TR, $T, x, sink, if $kind < 2 { 16 } else { 4 });
                assert!(r.nonneg == !neg, "sign flag = value is not negative");
                assert!(r.prefix_len == 0, "decimal forms have no prefix");
                assert!(r.len == wl, "numeral length");
                let j: usize = $crate::nd::nd();
                $crate::nd::assume(j < wl);
                assert!(r.buf[j] == want[j], "numeral characters");
            }
            #[cfg(not(kani))]
            {
                $crate::c12_skip_option_draws!();
                let j: usize = $crate::nd::nd();
                $crate::c12_battery_all!($k, x, $crate::c12::Tr(!neg, "", core::str::from_utf8(&want[..wl]).unwrap()), W, S, dval_u128(&xd));
            }
            $crate::reach!(neg == S, "negative value (signed) / any value (unsigned)");
            $crate::reach!(mag == 0, "zero");
            $crate::reach!(nd >= 3 && dec[nd - 1] == b'0', "trailing zero");
        });
    };
}

// ------------------------------------------------------------------------------------------------ native validation of the three models
#[cfg(all(test, not(kani)))]
mod validate {
    use super::*;
    use core::fmt::{Binary, Display, LowerHex, UpperHex};

    struct Real<'a>(bool, &'a str, &'a str);
    struct Model<'a>(bool, &'a str, &'a str);
    impl<'a> Display for Real<'a> {
        fn fmt(&self, f: &mut Formatter<'_>) -> fmt::Result { f.pad_integral(self.0, self.1, self.2) }
    }
    impl<'a> Display for Model<'a> {
        fn fmt(&self, f: &mut Formatter<'_>) -> fmt::Result { pad_integral_model(f, self.0, self.1, self.2) }
    }

    macro_rules! specs {
        ($r:expr, $m:expr, $w:expr, $bad:expr; $($s:literal),*) => {$(
            let a = format!($s, $r, $w);
            let b = format!($s, $m, $w);
            if a != b { $bad.push(format!("{} width {}: real {:?} model {:?}", $s, $w, a, b)); }
        )*};
    }

    /// the pad_integral model produces the text of the real function for every (sign, prefix, numeral, flags, fill, alignment, width 0..=260)
    #[test]
    fn c12_models_validated_pad_integral() {
        let mut bad: Vec<String> = Vec::new();
        let mut n = 0u64;
        let long = "1".repeat(70);
        for nonneg in [true, false] {
            for prefix in ["", "0x", "0b", "0o"] {
                for buf in ["0", "7", "1f", "12345", "1.2e3", "ffffffffffffffffffffffffffffffff", long.as_str()] {
                    for w in (0..=80usize).chain([127, 128, 129, 255, 256, 260]) {
                        let r = Real(nonneg, prefix, buf);
                        let m = Model(nonneg, prefix, buf);
                        specs!(r, m, w, bad; "{:1$}", "{:+1$}", "{:#1$}", "{:+#1$}", "{:01$}", "{:+01$}", "{:#01$}", "{:+#01$}",
                               "{:<1$}", "{:>1$}", "{:^1$}", "{:*<1$}", "{:*>1$}", "{:*^1$}", "{:_<+#1$}", "{:_>+#1$}", "{:_^+#1$}",
                               "{:*<01$}", "{:*^+#01$}", "{:0<1$}", "{:x^#1$}", "{:->+1$}");
                        n += 22;
                    }
                    let r = Real(nonneg, prefix, buf);
                    let m = Model(nonneg, prefix, buf);
                    for (a, b) in [(format!("{}", r), format!("{}", m)), (format!("{:+}", r), format!("{:+}", m)), (format!("{:#}", r), format!("{:#}", m)), (format!("{:+#}", r), format!("{:+#}", m))] {
                        if a != b { bad.push(format!("no width: real {:?} model {:?}", a, b)); }
                        n += 1;
                    }
                }
            }
        }
        assert!(bad.is_empty(), "pad_integral model disagrees with core: {:?}", &bad[..bad.len().min(5)]);
        println!("C12-MODEL-VALIDATION pad_integral: {} comparisons agree", n);
    }


    /// the to_str_radix model returns what the real bnum function returns (radix 8 and 10; all 8- and 16-bit values, sampled 32/64-bit values)
    #[test]
    fn c12_models_validated_to_str_radix() {
        let mut n = 0u64;
        for r in [8u32, 10, 2, 16, 36] {
            for v in 0..=255u8 { assert_eq!(tsr_u8(&bnum::BUintD8::<1>::from_digits([v]), r), bnum::BUintD8::<1>::from_digits([v]).to_str_radix(r)); n += 1; }
            for v in 0..=65535u16 {
                let a = bnum::BUintD8::<2>::from_digits([v as u8, (v >> 8) as u8]);
                assert_eq!(tsr_u8(&a, r), a.to_str_radix(r));
                let b = bnum::BUintD16::<1>::from_digits([v]);
                assert_eq!(tsr_u16(&b, r), b.to_str_radix(r));
                n += 2;
            }
            for v in samples64() {
                let a = bnum::BUintD32::<1>::from_digits([v as u32]);
                assert_eq!(tsr_u32(&a, r), a.to_str_radix(r));
                let b = bnum::BUint::<1>::from_digits([v]);
                assert_eq!(tsr_u64(&b, r), b.to_str_radix(r));
                let c = bnum::BUintD32::<2>::from_digits([v as u32, (v >> 32) as u32]);
                assert_eq!(tsr_u32(&c, r), c.to_str_radix(r));
                n += 3;
            }
        }
        println!("C12-MODEL-VALIDATION to_str_radix: {} comparisons agree", n);
    }


    /// sanity of the decomposition for the exponent forms: the primitives print `{:e}` / `{:E}` through `pad_formatted_parts`, not `pad_integral`;
    /// for every 8- and 16-bit value and the whole flag battery the primitive's text equals the real pad_integral applied to (sign, "", d[.ddd]e<k>)
    #[test]
    fn c12_models_validated_exp_decomposition() {
        let mut n = 0u64;
        for v in -32768i32..=65535 {
            let mag = v.unsigned_abs();
            let ds = format!("{}", mag);
            let e = ds.len() - 1;
            let t = ds.trim_end_matches('0');
            let t = if t.is_empty() { "0" } else { t };
            for up in [false, true] {
                let num = if t.len() == 1 { format!("{}{}{}", t, if up { 'E' } else { 'e' }, e) } else { format!("{}.{}{}{}", &t[0..1], &t[1..], if up { 'E' } else { 'e' }, e) };
                let tr = Tr(v >= 0, "", &num);
                macro_rules! one { ($p:expr) => {
                    if up { $crate::c12_battery_all!("E", $p, tr, 0usize, false, 0u128); } else { $crate::c12_battery_all!("e", $p, tr, 0usize, false, 0u128); }
                    n += 31;
                }; }
                if v >= 0 && v <= 255 { one!(v as u8); }
                if v >= -128 && v <= 127 { one!(v as i8); }
                if v >= 0 { one!(v as u16); }
                if v <= 32767 { one!(v as i16); }
            }
        }
        println!("C12-MODEL-VALIDATION exponent-form decomposition (primitive {{:e}} text == pad_integral of the triple): {} comparisons agree", n);
    }

    macro_rules! digit_check {
        ($D:ty, $tr:ident, $model:ident, $s0:literal, $s1:literal, $maxw:expr, $vals:expr, $bad:expr, $n:expr) => {{
            struct M($D);
            impl $tr for M {
                fn fmt(&self, f: &mut Formatter<'_>) -> fmt::Result { $model(&self.0, f) }
            }
            for v in $vals {
                let v: $D = v as $D;
                if format!($s0, v) != format!($s0, M(v)) { $bad.push(format!("{} {} {:?}", stringify!($model), $s0, v)); }
                $n += 1;
                for w in 0..=$maxw {
                    if format!($s1, v, w) != format!($s1, M(v), w) { $bad.push(format!("{} {} {:?} width {}", stringify!($model), $s1, v, w)); }
                    $n += 1;
                }
            }
        }};
    }

    fn samples64() -> Vec<u64> {
        let mut v: Vec<u64> = Vec::new();
        for s in 0..64u32 { for d in [0u64, 1, 2] { v.push((1u64 << s).wrapping_sub(d)); v.push((1u64 << s).wrapping_add(d)); v.push(!(1u64 << s)); } }
        let mut x: u64 = 0x9e3779b97f4a7c15;
        for _ in 0..20000 { x ^= x << 13; x ^= x >> 7; x ^= x << 17; v.push(x); v.push(x >> (x % 64)); }
        v
    }

    /// the digit formatter models produce the text of core's Binary / LowerHex / UpperHex impls for the option sets bnum uses
    /// (plain, zero-padded to every width up to the full digit length): all u8 and u16 values, boundary + 40 000 pseudo-random u32 / u64 values
    #[test]
    fn c12_models_validated_digits() {
        let mut bad: Vec<String> = Vec::new();
        let mut n = 0u64;
        digit_check!(u8, Binary, dm_b_u8, "{:b}", "{:01$b}", 8usize, 0..=255u64, bad, n);
        digit_check!(u8, LowerHex, dm_x_u8, "{:x}", "{:01$x}", 2usize, 0..=255u64, bad, n);
        digit_check!(u8, UpperHex, dm_ux_u8, "{:X}", "{:01$X}", 2usize, 0..=255u64, bad, n);
        digit_check!(u16, Binary, dm_b_u16, "{:b}", "{:01$b}", 16usize, 0..=65535u64, bad, n);
        digit_check!(u16, LowerHex, dm_x_u16, "{:x}", "{:01$x}", 4usize, 0..=65535u64, bad, n);
        digit_check!(u16, UpperHex, dm_ux_u16, "{:X}", "{:01$X}", 4usize, 0..=65535u64, bad, n);
        let s = samples64();
        digit_check!(u32, Binary, dm_b_u32, "{:b}", "{:01$b}", 32usize, s.iter().copied(), bad, n);
        digit_check!(u32, LowerHex, dm_x_u32, "{:x}", "{:01$x}", 8usize, s.iter().copied(), bad, n);
        digit_check!(u32, UpperHex, dm_ux_u32, "{:X}", "{:01$X}", 8usize, s.iter().copied(), bad, n);
        digit_check!(u64, Binary, dm_b_u64, "{:b}", "{:01$b}", 64usize, s.iter().copied(), bad, n);
        digit_check!(u64, LowerHex, dm_x_u64, "{:x}", "{:01$x}", 16usize, s.iter().copied(), bad, n);
        digit_check!(u64, UpperHex, dm_ux_u64, "{:X}", "{:01$X}", 16usize, s.iter().copied(), bad, n);
        let s128: Vec<u128> = s.iter().zip(s.iter().rev()).flat_map(|(a, b)| [((*a as u128) << 64) | *b as u128, *a as u128, (*b as u128) << 37]).collect();
        digit_check!(u128, Binary, dm_b_u128, "{:b}", "{:01$b}", 1usize, s128.iter().copied().take(3000), bad, n);
        digit_check!(u128, Binary, dm_b_u128, "{:b}", "{:01$b}", 128usize, s128.iter().copied().take(300), bad, n);
        digit_check!(u128, LowerHex, dm_x_u128, "{:x}", "{:01$x}", 32usize, s128.iter().copied().take(20000), bad, n);
        digit_check!(u128, UpperHex, dm_ux_u128, "{:X}", "{:01$X}", 32usize, s128.iter().copied().take(20000), bad, n);
        assert!(bad.is_empty(), "digit formatter model disagrees with core: {:?}", &bad[..bad.len().min(5)]);
        println!("C12-MODEL-VALIDATION digit formatters: {} comparisons agree", n);
    }
}
