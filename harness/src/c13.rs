//! C13 - checked conversions succeed exactly when the value is representable.
//! Oracle: `util::fits_in` (all bits above the target's value range equal the source sign) for Ok/Err, and the
//! C09 bit specification for the converted value.

/// BTryFrom from one source bnum type into a list of bnum targets
#[macro_export]
macro_rules! c13_btry {
    ($name:ident, $unw:expr, $S:ty, $SD:ty, $SN:expr; $(($T:ty, $TD:ty, $TN:expr)),+) => {
        $crate::harness!($name, $unw, {
            use $crate::util::*;
            use bnum::BTryFrom;
            let (s, sd) = <$S as BN<$SD, $SN>>::any();
            const SS: bool = <$S as BN<$SD, $SN>>::SIGNED;
            $({
                const WT: u32 = <$TD>::BITS * $TN;
                let i: u32 = $crate::nd::nd();
                $crate::nd::assume(i < WT);
                let fits = fits_in(&sd, SS, WT, <$T as BN<$TD, $TN>>::SIGNED);
                match <$T as BTryFrom<$S>>::try_from(s) {
                    Ok(t) => { assert!(fits, "Ok only when representable"); assert!(dbit(&t.dg(), i) == xbit(&sd, SS, i), "same value"); }
                    Err(_) => assert!(!fits, "Err only when not representable"),
                }
            })+
            $crate::reach!(SS == dneg(&sd), "negative / top bit set");
        });
    };
}

/// bnum -> all twelve primitives (TryFrom), and primitive -> bnum where the target is wide enough
#[macro_export]
macro_rules! c13_prim {
    ($name:ident, $unw:expr, $U:ty, $I:ty, $D:ty, $N:expr) => {
        $crate::harness!($name, $unw, {
            use $crate::util::*;
            const BITS: u32 = <$D>::BITS * $N;
            let (u, ud) = <$U as BN<$D, $N>>::any();
            let (s, sd) = <$I as BN<$D, $N>>::any();
            macro_rules! to_prim {
                ($P:ty) => {{
                    let j: u32 = $crate::nd::nd();
                    $crate::nd::assume(j < <$P>::BITS);
                    let fu = fits_in(&ud, false, <$P>::BITS, <$P as Prim>::PSIGNED);
                    match <$P as TryFrom<$U>>::try_from(u) {
                        Ok(p) => { assert!(fu, "Ok only when representable"); assert!(p.pbit(j) == xbit(&ud, false, j), "same value"); }
                        Err(_) => assert!(!fu, "Err only when not representable"),
                    }
                    let fs = fits_in(&sd, true, <$P>::BITS, <$P as Prim>::PSIGNED);
                    match <$P as TryFrom<$I>>::try_from(s) {
                        Ok(p) => { assert!(fs, "Ok only when representable"); assert!(p.pbit(j) == xbit(&sd, true, j), "same value"); }
                        Err(_) => assert!(!fs, "Err only when not representable"),
                    }
                }};
            }
            to_prim!(u8); to_prim!(u16); to_prim!(u32); to_prim!(u64); to_prim!(u128); to_prim!(usize);
            to_prim!(i8); to_prim!(i16); to_prim!(i32); to_prim!(i64); to_prim!(i128); to_prim!(isize);
            let i: u32 = $crate::nd::nd();
            $crate::nd::assume(i < BITS);
            // From<unsigned primitive>: only instantiated for targets at least as wide as the source (README limitation);
            // into the signed type only when strictly wider (every source value representable) - equal width is the known finding F5
            macro_rules! from_u {
                ($P:ty) => {{
                    if <$P>::BITS <= BITS {
                        let p: $P = $crate::nd::nd();
                        assert!(dbit(&<$U as From<$P>>::from(p).dg(), i) == p.pbit(i), "From<unsigned> for BUint");
                        assert!(dbit(&<$U as TryFrom<$P>>::try_from(p).unwrap().dg(), i) == p.pbit(i));
                    }
                    if <$P>::BITS < BITS {
                        let p: $P = $crate::nd::nd();
                        assert!(dbit(&<$I as From<$P>>::from(p).dg(), i) == p.pbit(i), "From<unsigned> for BInt");
                    }
                }};
            }
            macro_rules! from_i {
                ($P:ty) => {{
                    if <$P>::BITS <= BITS {
                        let p: $P = $crate::nd::nd();
                        assert!(dbit(&<$I as From<$P>>::from(p).dg(), i) == p.pbit(i), "From<signed> for BInt");
                        match <$U as TryFrom<$P>>::try_from(p) {
                            Ok(t) => { assert!(p >= 0, "Ok only for non-negative"); assert!(dbit(&t.dg(), i) == p.pbit(i)); }
                            Err(_) => assert!(p < 0, "Err only for negative"),
                        }
                    }
                }};
            }
            from_u!(u8); from_u!(u16); from_u!(u32); from_u!(u64); from_u!(u128); from_u!(usize);
            from_i!(i8); from_i!(i16); from_i!(i32); from_i!(i64); from_i!(i128); from_i!(isize);
            let b: bool = $crate::nd::nd();
            assert!(dbit(&<$U as From<bool>>::from(b).dg(), i) == (b && i == 0) && dbit(&<$I as From<bool>>::from(b).dg(), i) == (b && i == 0), "From<bool>");
            if BITS >= 32 {
                let c32: u32 = $crate::nd::nd();
                $crate::nd::assume(c32 <= 0x10ffff && !(c32 >= 0xd800 && c32 <= 0xdfff));
                assert!(dbit(&<$U as From<char>>::from(char::from_u32(c32).unwrap()).dg(), i) == c32.pbit(i), "From<char>");
            }
            // raw digit access
            let d: $D = $crate::nd::nd();
            let fd = <$U>::from_digit(d).dg();
            let mut k = 0;
            while k < $N { assert!(fd[k] == if k == 0 { d } else { 0 }, "from_digit"); k += 1; }
            let arr: [$D; $N] = <[$D; $N] as From<$U>>::from(u);
            assert!(deq(&arr, &ud) && deq(<$U>::from_digits(ud).digits(), &ud) && deq(&<$U as From<[$D; $N]>>::from(ud).dg(), &ud), "digit array unchanged");
            $crate::reach!(dneg(&sd) && dneg(&ud), "negative");
        });
    };
}

/// known finding F5 twin: From<uN> for a signed bnum type of EQUAL width (expected to fail: values >= 2^(BITS-1) wrap negative)
#[macro_export]
macro_rules! c13_kf_from_unsigned_eqwidth {
    ($name:ident, $unw:expr, $I:ty, $D:ty, $N:expr, $P:ty) => {
        $crate::harness!($name, $unw, {
            use $crate::util::*;
            let p: $P = $crate::nd::nd();
            let t = <$I as From<$P>>::from(p);
            // the denoted value must be p, in particular non-negative
            assert!(!dneg(&t.dg()), "From<unsigned> yields a non-negative value");
        });
    };
}
