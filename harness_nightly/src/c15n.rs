//! C15 (nightly part) - to_{be,le,ne}_bytes and from_{be,le,ne}_bytes are exact inverses producing the two's-complement bytes.

#[macro_export]
macro_rules! c15n_bytes {
    ($name:ident, $unw:expr, $T:ty, $D:ty, $N:expr, $B:expr) => {
        $crate::harness!($name, $unw, {
            use $crate::util::*;
            let (x, xd) = <$T as BN<$D, $N>>::any();
            let k: usize = $crate::nd::nd();
            $crate::nd::assume(k < $B);
            let le: [u8; $B] = x.to_le_bytes();
            let be: [u8; $B] = x.to_be_bytes();
            let ne: [u8; $B] = x.to_ne_bytes();
            assert!(le[k] == dbyte(&xd, k), "to_le_bytes: byte k of the two's-complement pattern");
            assert!(be[k] == dbyte(&xd, $B - 1 - k), "to_be_bytes: reversed");
            assert!(ne[k] == if cfg!(target_endian = "little") { le[k] } else { be[k] }, "to_ne_bytes follows the target");
            // from_*_bytes on arbitrary bytes, then inverse laws
            let raw: [u8; $B] = $crate::nd::nd();
            assert!(dbyte(&<$T>::from_le_bytes(raw).dg(), k) == raw[k], "from_le_bytes");
            assert!(dbyte(&<$T>::from_be_bytes(raw).dg(), k) == raw[$B - 1 - k], "from_be_bytes");
            assert!(dbyte(&<$T>::from_ne_bytes(raw).dg(), k) == if cfg!(target_endian = "little") { raw[k] } else { raw[$B - 1 - k] }, "from_ne_bytes");
            assert!(deq(&<$T>::from_le_bytes(le).dg(), &xd) && deq(&<$T>::from_be_bytes(be).dg(), &xd) && deq(&<$T>::from_ne_bytes(ne).dg(), &xd), "from(to(x)) == x");
            assert!(<$T>::from_le_bytes(raw).to_le_bytes()[k] == raw[k] && <$T>::from_be_bytes(raw).to_be_bytes()[k] == raw[k], "to(from(b)) == b");
            $crate::reach!(dneg(&xd), "top bit set");
        });
    };
}
