//! C03 - division and remainder satisfy n = q*d + r with the documented rounding.
//! Oracle: postcondition in the narrowest primitive that holds the products ($X): q*d + r == n, |r| < |d|,
//! sign rule; every other rounding mode is derived from that (q, r) by exact integer reasoning.
//! `$gen` is `any` (all operands) or `any_alpha` (every digit over the 8-value boundary alphabet).
//! `$path` restricts the dispatch path of the unsigned algorithm: all | small (n <= d or one-digit divisor) | knuth.

#[macro_export]
macro_rules! c03_path_flag {
    (small, small) => { true };
    (knuth, knuth) => { true };
    ($a:ident, $b:ident) => { false };
}

#[macro_export]
macro_rules! c03_path {
    (all, $ad:expr, $bd:expr, $N:expr) => {};
    (small, $ad:expr, $bd:expr, $N:expr) => {{
        // divisor has a single significant digit, or dividend <= divisor
        let mut single = true;
        let mut k = 1;
        while k < $N { single &= $bd[k] == 0; k += 1; }
        $crate::nd::assume(single || dval_u128(&$ad) <= dval_u128(&$bd));
    }};
    (knuth, $ad:expr, $bd:expr, $N:expr) => {{
        let mut single = true;
        let mut k = 1;
        while k < $N { single &= $bd[k] == 0; k += 1; }
        $crate::nd::assume(!single && dval_u128(&$ad) > dval_u128(&$bd));
    }};
}

/// unsigned `/` and `%` (the two primitives everything else is built on) against the postcondition
#[macro_export]
macro_rules! c03_u_main {
    ($name:ident, $unw:expr, $U:ty, $D:ty, $N:expr, $gen:ident, $X:ty, $path:ident) => {
        $crate::harness!($name, $unw, {
            use $crate::util::*;
            let (a, ad) = <$U as BN<$D, $N>>::$gen();
            let (b, bd) = <$U as BN<$D, $N>>::$gen();
            $crate::nd::assume(!dzero(&bd));
            $crate::c03_path!($path, ad, bd, $N);
            let (n, d) = (dval_u128(&ad) as $X, dval_u128(&bd) as $X);
            let q = dval_u128(&(a / b).dg()) as $X;
            let r = dval_u128(&(a % b).dg()) as $X;
            assert!(r < d, "remainder below the divisor");
            assert!(q <= n && q * d + r == n, "n == q * d + r");
            $crate::reach!(q > 1 && r != 0 && ($N == 1 || bd[$N - 1] != 0 || $crate::c03_path_flag!(small, $path)), "general case");
            $crate::reach!(n < d || $crate::c03_path_flag!(knuth, $path), "dividend below divisor");
        });
    };
}

/// every other unsigned division form relative to `/` and `%`
#[macro_export]
macro_rules! c03_u_proj {
    ($name:ident, $unw:expr, $U:ty, $D:ty, $N:expr, $gen:ident, $path:ident, $pa:expr, $pb:expr, $pc:expr) => {
        $crate::harness!($name, $unw, {
            use $crate::util::*;
            const M: usize = $N + 1;
            let (a, ad) = <$U as BN<$D, $N>>::$gen();
            let (b, bd) = <$U as BN<$D, $N>>::$gen();
            $crate::nd::assume(!dzero(&bd));
            $crate::c03_path!($path, ad, bd, $N);
            let (q, r) = ((a / b).dg(), (a % b).dg());
            let same = |x: $U, e: &[$D; $N]| deq(&x.dg(), e);
            if $pa {
            assert!(same(a.div(b), &q) && same(a.rem(b), &r), "const div / rem");
            assert!(same(a.checked_div(b).unwrap(), &q) && same(a.checked_rem(b).unwrap(), &r), "checked");
            assert!(same(a.checked_div_euclid(b).unwrap(), &q) && same(a.checked_rem_euclid(b).unwrap(), &r), "checked euclid");
            assert!(same(a.div_euclid(b), &q) && same(a.rem_euclid(b), &r), "euclid == truncating for unsigned");
            }
            if $pb {
            assert!(same(a.wrapping_div(b), &q) && same(a.wrapping_rem(b), &r) && same(a.wrapping_div_euclid(b), &q) && same(a.wrapping_rem_euclid(b), &r), "wrapping");
            let (oq, f1) = a.overflowing_div(b);
            let (or, f2) = a.overflowing_rem(b);
            let (oqe, f3) = a.overflowing_div_euclid(b);
            let (ore, f4) = a.overflowing_rem_euclid(b);
            assert!(same(oq, &q) && same(or, &r) && same(oqe, &q) && same(ore, &r) && !f1 && !f2 && !f3 && !f4, "overflowing never flags");
            }
            if $pc {
            assert!(same(a.saturating_div(b), &q), "saturating_div");
            assert!(same(a.strict_div(b), &q) && same(a.strict_rem(b), &r) && same(a.strict_div_euclid(b), &q) && same(a.strict_rem_euclid(b), &r), "strict");
            assert!(same(a.div_floor(b), &q), "div_floor");
            // div_ceil = q + (r != 0); never overflows
            let xq = XD::<$D, M>::from_u(&q);
            let ceil = if dzero(&r) { xq } else { xq.add(&XD::<$D, M>::small(1)) };
            assert!(same(a.div_ceil(b), &ceil.low::<$N>()), "div_ceil rounds toward +infinity");
            // next multiple: a if r == 0 else a + (b - r); checked form None exactly when it does not fit
            let nm = if dzero(&r) { XD::<$D, M>::from_u(&ad) } else { XD::<$D, M>::from_u(&ad).add(&XD::<$D, M>::from_u(&bd)).sub(&XD::<$D, M>::from_u(&r)) };
            match a.checked_next_multiple_of(b) {
                Some(m) => { assert!(nm.fits_u() && same(m, &nm.low::<$N>()), "next multiple at or above self"); }
                None => assert!(!nm.fits_u(), "None only when the next multiple does not fit"),
            }
            if nm.fits_u() { assert!(same(a.next_multiple_of(b), &nm.low::<$N>()), "next_multiple_of"); }
            }
            $crate::reach!(!dzero(&r), "inexact division");
        });
    };
}

/// a zero divisor yields None from every checked form (both signs; no division is executed)
#[macro_export]
macro_rules! c03_zero_div {
    ($name:ident, $unw:expr, $U:ty, $I:ty, $D:ty, $N:expr) => {
        $crate::harness!($name, $unw, {
            use $crate::util::*;
            let (a, ad) = <$U as BN<$D, $N>>::any();
            let s = <$I>::from_bits(a);
            let (z, sz) = (<$U>::ZERO, <$I>::ZERO);
            assert!(a.checked_div(z).is_none() && a.checked_rem(z).is_none() && a.checked_div_euclid(z).is_none()
                && a.checked_rem_euclid(z).is_none() && a.checked_next_multiple_of(z).is_none(), "unsigned checked forms");
            assert!(s.checked_div(sz).is_none() && s.checked_rem(sz).is_none() && s.checked_div_euclid(sz).is_none()
                && s.checked_rem_euclid(sz).is_none() && s.checked_next_multiple_of(sz).is_none(), "signed checked forms");
            $crate::reach!(dneg(&ad), "negative dividend");
        });
    };
}

/// signed `/` and `%`: truncation, remainder carries the sign of n; MIN / -1 excluded here
#[macro_export]
macro_rules! c03_i_main {
    ($name:ident, $unw:expr, $I:ty, $D:ty, $N:expr, $gen:ident, $X:ty) => {
        $crate::harness!($name, $unw, {
            use $crate::util::*;
            let (a, ad) = <$I as BN<$D, $N>>::$gen();
            let (b, bd) = <$I as BN<$D, $N>>::$gen();
            let (n, d) = (dval_i128(&ad) as $X, dval_i128(&bd) as $X);
            const W: u32 = <$D>::BITS * $N;
            let min: $X = -((1 as $X) << (W - 1));
            $crate::nd::assume(d != 0 && !(n == min && d == -1));
            let q = dval_i128(&(a / b).dg()) as $X;
            let r = dval_i128(&(a % b).dg()) as $X;
            let (ar, adv) = (if r < 0 { -r } else { r }, if d < 0 { -d } else { d });
            assert!(ar < adv, "|r| < |d|");
            assert!(r == 0 || (r < 0) == (n < 0), "remainder carries the sign of the dividend");
            assert!(q * d + r == n, "n == q * d + r");
            $crate::reach!(n < 0 && d < 0 && r != 0, "both negative");
            $crate::reach!(n < 0 && d > 1 && r != 0, "negative dividend");
            $crate::reach!(n == min && d == 1, "MIN / 1");
        });
    };
}

/// every other signed division form, derived from the truncating (q, r) by exact integer reasoning
#[macro_export]
macro_rules! c03_i_proj {
    ($name:ident, $unw:expr, $I:ty, $D:ty, $N:expr, $gen:ident, $pa:expr, $pb:expr, $pc:expr) => {
        $crate::harness!($name, $unw, {
            use $crate::util::*;
            const M: usize = $N + 1;
            type Xd = XD<$D, M>;
            let (a, ad) = <$I as BN<$D, $N>>::$gen();
            let (b, bd) = <$I as BN<$D, $N>>::$gen();
            $crate::nd::assume(!dzero(&bd));
            let (xa, xb) = (Xd::from_s(&ad), Xd::from_s(&bd));
            let min_over_m1 = is_min_s(&ad) && is_all_ones(&bd);
            let same = |x: $I, e: &[$D; $N]| deq(&x.dg(), e);
            if min_over_m1 {
                // the documented overflow projections
                let mn = ad;
                let mut mx = [<$D as Dig>::MAXD; $N];
                mx[$N - 1] = <$D as Dig>::from_u64(<$D as Dig>::MAXD.to_u64() >> 1);
                assert!(a.checked_div(b).is_none() && a.checked_rem(b).is_none() && a.checked_div_euclid(b).is_none() && a.checked_rem_euclid(b).is_none(), "checked: None");
                let (v, f) = a.overflowing_div(b); assert!(f && same(v, &mn), "overflowing_div: (MIN, true)");
                let (v, f) = a.overflowing_rem(b); assert!(f && v.is_zero(), "overflowing_rem: (0, true)");
                let (v, f) = a.overflowing_div_euclid(b); assert!(f && same(v, &mn));
                let (v, f) = a.overflowing_rem_euclid(b); assert!(f && v.is_zero());
                assert!(same(a.wrapping_div(b), &mn) && a.wrapping_rem(b).is_zero() && same(a.wrapping_div_euclid(b), &mn) && a.wrapping_rem_euclid(b).is_zero(), "wrapping: MIN / 0");
                assert!(same(a.saturating_div(b), &mx), "saturating_div: MAX");
            } else {
                let (q, r) = ((a / b).dg(), (a % b).dg());
                let (xq, xr) = (Xd::from_s(&q), Xd::from_s(&r));
                if $pa {
                assert!(same(a.div(b), &q) && same(a.rem(b), &r), "const div / rem");
                assert!(same(a.checked_div(b).unwrap(), &q) && same(a.checked_rem(b).unwrap(), &r), "checked");
                assert!(same(a.wrapping_div(b), &q) && same(a.wrapping_rem(b), &r), "wrapping");
                let (v, f) = a.overflowing_div(b); assert!(!f && same(v, &q));
                let (v, f) = a.overflowing_rem(b); assert!(!f && same(v, &r));
                assert!(same(a.saturating_div(b), &q) && same(a.strict_div(b), &q) && same(a.strict_rem(b), &r), "saturating / strict");
                }
                let rneg = xr.is_neg();
                if $pb {
                // euclid: 0 <= r' < |d|: r' = r (r >= 0), r + |d| otherwise; q' adjusted so that q'*d + r' = n
                let re = if !rneg { xr } else { xr.add(&xb.abs()) };
                let qe = if !rneg { xq } else if xb.is_neg() { xq.add(&Xd::small(1)) } else { xq.sub(&Xd::small(1)) };
                assert!(same(a.rem_euclid(b), &re.low::<$N>()) && same(a.div_euclid(b), &qe.low::<$N>()), "euclid");
                assert!(same(a.checked_rem_euclid(b).unwrap(), &re.low::<$N>()) && same(a.checked_div_euclid(b).unwrap(), &qe.low::<$N>()), "checked euclid");
                assert!(same(a.wrapping_rem_euclid(b), &re.low::<$N>()) && same(a.wrapping_div_euclid(b), &qe.low::<$N>()), "wrapping euclid");
                let (v, f) = a.overflowing_div_euclid(b); assert!(!f && same(v, &qe.low::<$N>()));
                let (v, f) = a.overflowing_rem_euclid(b); assert!(!f && same(v, &re.low::<$N>()));
                assert!(same(a.strict_div_euclid(b), &qe.low::<$N>()) && same(a.strict_rem_euclid(b), &re.low::<$N>()), "strict euclid");
                }
                let inexact = !xr.is_zero();
                let qneg = xa.is_neg() != xb.is_neg();
                if $pc {
                // floor / ceil: exact quotient is negative iff signs differ (and r != 0 means it is not an integer)
                let fl = if inexact && qneg { xq.sub(&Xd::small(1)) } else { xq };
                let ce = if inexact && !qneg { xq.add(&Xd::small(1)) } else { xq };
                assert!(same(a.div_floor(b), &fl.low::<$N>()), "div_floor rounds toward -infinity");
                assert!(same(a.div_ceil(b), &ce.low::<$N>()), "div_ceil rounds toward +infinity");
                // next multiple in the direction of the divisor's sign: a + ((d - (a mod d)) mod d) with floor-mod
                let rm = if !inexact || xr.is_neg() == xb.is_neg() { xr } else { xr.add(&xb) }; // floor-mod: sign of d
                let nm = if rm.is_zero() { xa } else { xa.add(&xb).sub(&rm) };
                match a.checked_next_multiple_of(b) {
                    Some(m) => assert!(nm.fits_s() && same(m, &nm.low::<$N>()), "next multiple at or beyond self"),
                    None => assert!(!nm.fits_s(), "None only when the next multiple is not representable"),
                }
                if nm.fits_s() { assert!(same(a.next_multiple_of(b), &nm.low::<$N>()), "next_multiple_of"); }
                }
                $crate::reach!(inexact && qneg && rneg, "floor differs from truncation");
            }
            $crate::reach!(min_over_m1, "MIN / -1");
        });
    };
}

/// 128-bit types: alphabet operands against the primitive u128 / i128 division itself
#[macro_export]
macro_rules! c03_w128 {
    ($name:ident, $unw:expr, $U:ty, $I:ty, $D:ty, $N:expr, $gen:ident) => {
        $crate::harness!($name, $unw, {
            use $crate::util::*;
            let (a, ad) = <$U as BN<$D, $N>>::$gen();
            let (b, bd) = <$U as BN<$D, $N>>::$gen();
            $crate::nd::assume(!dzero(&bd));
            let (n, d) = (dval_u128(&ad), dval_u128(&bd));
            assert!(dval_u128(&(a / b).dg()) == n / d && dval_u128(&(a % b).dg()) == n % d, "unsigned div / rem == primitive");
            let (sa, sb) = (<$I>::from_bits(a), <$I>::from_bits(b));
            let (sn, sd) = (n as i128, d as i128);
            if !(sn == i128::MIN && sd == -1) {
                assert!(dval_i128(&(sa / sb).dg()) == sn / sd && dval_i128(&(sa % sb).dg()) == sn % sd, "signed div / rem == primitive");
            }
            $crate::reach!(n > d && bd[$N - 1] != 0, "multi-digit divisor");
        });
    };
}

/// unsigned / and %: dividend fully symbolic, divisor digits over the boundary alphabet (keeps the postcondition
/// multiplier narrow while every q-hat correction / add-back case for those divisors is inside the bound)
#[macro_export]
macro_rules! c03_u_semi {
    ($name:ident, $unw:expr, $U:ty, $D:ty, $N:expr, $X:ty) => {
        $crate::c03_u_semi!($name, $unw, $U, $D, $N, $X, any, any_alpha);
    };
    ($name:ident, $unw:expr, $U:ty, $D:ty, $N:expr, $X:ty, $ga:ident, $gb:ident) => {
        $crate::harness!($name, $unw, {
            use $crate::util::*;
            let (a, ad) = <$U as BN<$D, $N>>::$ga();
            let (b, bd) = <$U as BN<$D, $N>>::$gb();
            $crate::nd::assume(!dzero(&bd));
            let (n, d) = (dval_u128(&ad) as $X, dval_u128(&bd) as $X);
            let q = dval_u128(&(a / b).dg()) as $X;
            let r = dval_u128(&(a % b).dg()) as $X;
            assert!(r < d, "remainder below the divisor");
            assert!(q <= n && q * d + r == n, "n == q * d + r");
            $crate::reach!(q > <$D as Dig>::MAXD.to_u64() as $X && r != 0 && bd[1] != 0, "multi-digit quotient with a multi-digit divisor");
        });
    };
}

/// Knuth D with a CONCRETE multi-digit divisor and a fully symbolic dividend: the divisor-dependent parts of the algorithm
/// (normalisation shift, q-hat estimate, multiply-subtract) become operations with constants, which the solver decides for all
/// 2^BITS dividends at widths where two symbolic operands do not finish; every quotient digit position (incl. the q-hat
/// corrections and the add-back step at a non-lowest position) is exercised by some dividend.
#[macro_export]
macro_rules! c03_u_cdiv {
    ($name:ident, $unw:expr, $U:ty, $D:ty, $N:expr, $X:ty, [$($dv:expr),*]) => {
        $crate::harness!($name, $unw, {
            use $crate::util::*;
            let (a, ad) = <$U as BN<$D, $N>>::any();
            let bd: [$D; $N] = [$($dv),*];
            let b = <$U as BN<$D, $N>>::mk(bd);
            let (n, d) = (dval_u128(&ad) as $X, dval_u128(&bd) as $X);
            let q = dval_u128(&(a / b).dg()) as $X;
            let r = dval_u128(&(a % b).dg()) as $X;
            assert!(r < d, "remainder below the divisor");
            assert!(q <= n && q * d + r == n, "n == q * d + r");
            $crate::reach!(q > <$D as Dig>::MAXD.to_u64() as $X && r != 0, "multi-digit quotient");
        });
    };
}

/// q * d + r == n in exact limb arithmetic (u64 limbs, u128 partial products), for widths without a primitive oracle.
/// `q`, `d`, `r`, `n` are little-endian u64 limb arrays of length L; returns false if the product does not fit L limbs.
pub fn limb_mul_add_eq<const L: usize>(q: &[u64; L], d: &[u64; L], r: &[u64; L], n: &[u64; L]) -> bool {
    let mut acc = [0u64; L];
    let mut i = 0;
    while i < L {
        let mut carry: u128 = 0;
        let mut j = 0;
        while j < L {
            if i + j < L {
                let t = (q[i] as u128) * (d[j] as u128) + acc[i + j] as u128 + carry;
                acc[i + j] = t as u64;
                carry = t >> 64;
            } else if q[i] != 0 && d[j] != 0 {
                return false;
            }
            j += 1;
        }
        if carry != 0 { return false; }
        i += 1;
    }
    // + r
    let mut c = false;
    let mut k = 0;
    while k < L {
        let (s, c1) = acc[k].overflowing_add(r[k]);
        let (s, c2) = s.overflowing_add(c as u64);
        acc[k] = s;
        c = c1 || c2;
        k += 1;
    }
    if c { return false; }
    let mut k = 0;
    let mut eq = true;
    while k < L { eq &= acc[k] == n[k]; k += 1; }
    eq
}
pub fn limb_lt<const L: usize>(a: &[u64; L], b: &[u64; L]) -> bool {
    let mut k = L;
    let mut lt = false;
    let mut decided = false;
    while k > 0 { k -= 1; if !decided && a[k] != b[k] { lt = a[k] < b[k]; decided = true; } }
    lt
}

/// the same as c03_u_cdiv for u64 digits beyond 128 bits (limb oracle)
#[macro_export]
macro_rules! c03_u_cdiv_wide {
    ($name:ident, $unw:expr, $U:ty, $N:expr, [$($dv:expr),*]) => {
        $crate::harness!($name, $unw, {
            use $crate::util::*;
            let (a, ad) = <$U as BN<u64, $N>>::any();
            let bd: [u64; $N] = [$($dv),*];
            let b = <$U as BN<u64, $N>>::mk(bd);
            let q = (a / b).dg();
            let r = (a % b).dg();
            assert!($crate::c03::limb_lt(&r, &bd), "remainder below the divisor");
            assert!($crate::c03::limb_mul_add_eq(&q, &bd, &r, &ad), "n == q * d + r");
            $crate::reach!(q[1] != 0 && !dzero(&r), "multi-digit quotient");
        });
    };
}
