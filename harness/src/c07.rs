//! C07 - comparison, equality, hashing and sign predicates agree with the numeric value.
//! Oracle: sign of the exact (N+1)-digit difference of the denoted integers.

#[macro_export]
macro_rules! c07_cmp {
    ($name:ident, $unw:expr, $T:ty, $D:ty, $N:expr) => {
        $crate::harness!($name, $unw, {
            use $crate::util::*;
            use core::cmp::Ordering;
            const M: usize = $N + 1;
            const S: bool = <$T as BN<$D, $N>>::SIGNED;
            let (a, ad) = <$T as BN<$D, $N>>::any();
            let (b, bd) = <$T as BN<$D, $N>>::any();
            let (c, cd) = <$T as BN<$D, $N>>::any();
            let (xa, xb, xc) = (XD::<$D, M>::from_val(&ad, S), XD::<$D, M>::from_val(&bd, S), XD::<$D, M>::from_val(&cd, S));
            let o = xa.cmp(&xb);
            // inherent (const) forms
            assert!(a.cmp(&b) == o, "cmp");
            assert!(<$T>::eq(&a, &b) == (o == Ordering::Equal) && <$T>::ne(&a, &b) == (o != Ordering::Equal), "eq / ne");
            assert!(<$T>::lt(&a, &b) == (o == Ordering::Less) && <$T>::le(&a, &b) == (o != Ordering::Greater), "lt / le");
            assert!(<$T>::gt(&a, &b) == (o == Ordering::Greater) && <$T>::ge(&a, &b) == (o != Ordering::Less), "gt / ge");
            // trait forms and operators
            assert!(Ord::cmp(&a, &b) == o && PartialOrd::partial_cmp(&a, &b) == Some(o), "Ord / PartialOrd");
            assert!((a == b) == (o == Ordering::Equal) && (a != b) == (o != Ordering::Equal), "== / !=");
            assert!((a < b) == (o == Ordering::Less) && (a <= b) == (o != Ordering::Greater), "< / <=");
            assert!((a > b) == (o == Ordering::Greater) && (a >= b) == (o != Ordering::Less), "> / >=");
            // equality is identity of the digit arrays
            assert!((a == b) == deq(&ad, &bd), "equal exactly when the digit arrays are identical");
            // min / max return one of the operands with the right value
            let (mx, mn) = (if o == Ordering::Greater { ad } else { bd }, if o == Ordering::Greater { bd } else { ad });
            assert!(deq(&<$T>::max(a, b).dg(), &mx) && deq(&Ord::max(a, b).dg(), &mx), "max");
            assert!(deq(&<$T>::min(a, b).dg(), &mn) && deq(&Ord::min(a, b).dg(), &mn), "min");
            // clamp(b, c) for b <= c
            if xb.cmp(&xc) != Ordering::Greater {
                let e = if xa.cmp(&xb) == Ordering::Less { bd } else if xa.cmp(&xc) == Ordering::Greater { cd } else { ad };
                assert!(deq(&<$T>::clamp(a, b, c).dg(), &e) && deq(&Ord::clamp(a, b, c).dg(), &e), "clamp");
            }
            $crate::reach!(o == Ordering::Less && dneg(&ad) != dneg(&bd), "top bits differ");
            $crate::reach!(o == Ordering::Greater && ($N == 1 || ad[$N - 1] == bd[$N - 1]), "decided below the top digit");
            $crate::reach!(o == Ordering::Equal, "equal");
        });
    };
}

/// clamp panics when min > max (std behaviour)
#[macro_export]
macro_rules! c07_clamp_panic {
    ($name:ident, $unw:expr, $T:ty, $D:ty, $N:expr) => {
        $crate::panic_harness!($name, $unw, {
            use $crate::util::*;
            const M: usize = $N + 1;
            const S: bool = <$T as BN<$D, $N>>::SIGNED;
            let (a, _) = <$T as BN<$D, $N>>::any();
            let (b, bd) = <$T as BN<$D, $N>>::any();
            let (c, cd) = <$T as BN<$D, $N>>::any();
            $crate::nd::assume(XD::<$D, M>::from_val(&bd, S).cmp(&XD::<$D, M>::from_val(&cd, S)) == core::cmp::Ordering::Greater);
            $crate::reach!(true, "min > max");
            let _ = <$T>::clamp(a, b, c);
            $crate::noreturn!("clamp returned with min > max");
        });
    };
}

/// signum / is_positive / is_negative (signed only)
#[macro_export]
macro_rules! c07_sign {
    ($name:ident, $unw:expr, $I:ty, $D:ty, $N:expr) => {
        $crate::harness!($name, $unw, {
            use $crate::util::*;
            let (a, ad) = <$I as BN<$D, $N>>::any();
            let neg = dneg(&ad);
            let zero = dzero(&ad);
            assert!(a.is_negative() == neg, "is_negative");
            assert!(a.is_positive() == (!neg && !zero), "is_positive (zero is neither)");
            let s = a.signum().dg();
            let mut k = 0;
            while k < $N {
                let e: u64 = if neg { <$D as Dig>::MAXD.to_u64() } else if zero { 0 } else { (k == 0) as u64 };
                assert!(s[k].to_u64() == e, "signum is -1 / 0 / 1");
                k += 1;
            }
            $crate::reach!(!neg && !zero && ($N == 1 || ad[$N - 1].to_u64() == 0), "positive with zero top digit");
            $crate::reach!(zero, "zero");
        });
    };
}

/// equal values hash equally (derived Hash is fed through a recording hasher)
#[macro_export]
macro_rules! c07_hash {
    ($name:ident, $unw:expr, $T:ty, $D:ty, $N:expr) => {
        $crate::harness!($name, $unw, {
            use $crate::util::*;
            use core::hash::{Hash, Hasher};
            struct Rec { h: u64, n: u32 }
            impl Hasher for Rec {
                fn finish(&self) -> u64 { self.h ^ ((self.n as u64) << 56) }
                fn write(&mut self, bytes: &[u8]) {
                    let mut i = 0;
                    while i < bytes.len() { self.h = self.h.rotate_left(7) ^ (bytes[i] as u64); self.n += 1; i += 1; }
                }
            }
            let (a, ad) = <$T as BN<$D, $N>>::any();
            let (b, bd) = <$T as BN<$D, $N>>::any();
            let (mut ha, mut hb) = (Rec { h: 0, n: 0 }, Rec { h: 0, n: 0 });
            a.hash(&mut ha);
            b.hash(&mut hb);
            if a == b {
                assert!(ha.finish() == hb.finish() && ha.n == hb.n, "equal values hash equally");
            }
            assert!(ha.n >= (<$D>::BITS / 8) * $N, "every digit is fed to the hasher");
            $crate::reach!(a == b, "equal pair");
            $crate::reach!(a != b && ha.finish() != hb.finish(), "different pair, different stream");
        });
    };
}
