//! C17 - operator traits, assign forms, reference forms and iterator folds agree with the inherent methods.
//! Every form is compared with the const inherent twin on the same symbolic operands; panic outcomes are compared
//! with the idiom of C04 (predicate = overflow flag of the overflowing_* method / zero divisor).

/// all seven forms of a binary operator: v op v, &v op v, v op &v, &v op &v, op=, op= &, inherent twin
#[macro_export]
macro_rules! c17_forms {
    ($T:ty, $x:ident, $y:ident, $form:ident, $op:tt, $opa:tt, $twin:ident) => {
        match $form {
            0 => ($x $op $y).dg(),
            1 => (&$x $op $y).dg(),
            2 => ($x $op &$y).dg(),
            3 => (&$x $op &$y).dg(),
            4 => { let mut z = $x; z $opa $y; z.dg() }
            5 => { let mut z = $x; z $opa &$y; z.dg() }
            _ => <$T>::$twin($x, $y).dg(),
        }
    };
}

/// `$set` = lin (add sub bitand bitor bitxor) | mul (mul div rem);  `$mode` = ok | panic
#[macro_export]
macro_rules! c17_binops {
    (@pred lin, $x:ident, $y:ident, $op:ident) => {
        match $op { 0 => $x.overflowing_add($y).1, 1 => $x.overflowing_sub($y).1, _ => false }
    };
    (@pred mul, $x:ident, $y:ident, $op:ident) => {
        match $op { 0 => $x.overflowing_mul($y).1, _ => $y.is_zero() || ($x.checked_div($y).is_none()) }
    };
    (@refval lin, $x:ident, $y:ident, $op:ident) => {
        match $op { 0 => $x.wrapping_add($y).dg(), 1 => $x.wrapping_sub($y).dg(), 2 => $x.bitand($y).dg(), 3 => $x.bitor($y).dg(), _ => $x.bitxor($y).dg() }
    };
    (@refval mul, $x:ident, $y:ident, $op:ident) => {
        match $op { 0 => $x.wrapping_mul($y).dg(), 1 => $x.checked_div($y).unwrap().dg(), _ => $x.checked_rem($y).unwrap().dg() }
    };
    (@apply lin, $T:ty, $x:ident, $y:ident, $op:ident, $form:ident) => {
        match $op {
            0 => $crate::c17_forms!($T, $x, $y, $form, +, +=, add),
            1 => $crate::c17_forms!($T, $x, $y, $form, -, -=, sub),
            2 => $crate::c17_forms!($T, $x, $y, $form, &, &=, bitand),
            3 => $crate::c17_forms!($T, $x, $y, $form, |, |=, bitor),
            _ => $crate::c17_forms!($T, $x, $y, $form, ^, ^=, bitxor),
        }
    };
    (@apply mul, $T:ty, $x:ident, $y:ident, $op:ident, $form:ident) => {
        match $op {
            0 => $crate::c17_forms!($T, $x, $y, $form, *, *=, mul),
            1 => $crate::c17_forms!($T, $x, $y, $form, /, /=, div),
            _ => $crate::c17_forms!($T, $x, $y, $form, %, %=, rem),
        }
    };
    ($name:ident, $unw:expr, $T:ty, $D:ty, $N:expr, $set:ident, $nops:expr, panic) => {
        $crate::panic_harness!($name, $unw, {
            use $crate::util::*;
            let (x, _) = <$T as BN<$D, $N>>::any();
            let (y, _) = <$T as BN<$D, $N>>::any();
            let op: u8 = $crate::nd::nd();
            let form: u8 = $crate::nd::nd();
            $crate::nd::assume(op < $nops && form < 7);
            let must_panic: bool = $crate::c17_binops!(@pred $set, x, y, op);
            $crate::nd::assume(must_panic);
            $crate::reach!(form == 0 && op == 0, "v op v"); $crate::reach!(form == 5 && op == 1, "op= &v"); $crate::reach!(form == 6, "inherent twin");
            let _r: [$D; $N] = $crate::c17_binops!(@apply $set, $T, x, y, op, form);
            $crate::noreturn!("a trait / assign / reference form returned where the inherent method panics");
        });
    };
    ($name:ident, $unw:expr, $T:ty, $D:ty, $N:expr, $set:ident, $nops:expr, ok) => {
        $crate::harness!($name, $unw, {
            use $crate::util::*;
            let (x, _) = <$T as BN<$D, $N>>::any();
            let (y, _) = <$T as BN<$D, $N>>::any();
            let op: u8 = $crate::nd::nd();
            let form: u8 = $crate::nd::nd();
            $crate::nd::assume(op < $nops && form < 7);
            let must_panic: bool = $crate::c17_binops!(@pred $set, x, y, op);
            $crate::nd::assume(!must_panic);
            let e: [$D; $N] = $crate::c17_binops!(@refval $set, x, y, op);
            let r: [$D; $N] = $crate::c17_binops!(@apply $set, $T, x, y, op, form);
            assert!(deq(&r, &e), "every form computes the value of the inherent method");
            $crate::reach!(form == 1 && op == 0, "&v op v"); $crate::reach!(form == 4 && op + 1 == $nops, "op="); $crate::reach!(form == 6 && op == 1, "twin");
        });
    };
}

/// unary - (signed) and ! in value and reference form
#[macro_export]
macro_rules! c17_unary {
    ($name:ident, $unw:expr, $U:ty, $I:ty, $D:ty, $N:expr) => {
        $crate::harness!($name, $unw, {
            use $crate::util::*;
            let (u, ud) = <$U as BN<$D, $N>>::any();
            let s = <$I>::from_bits(u);
            assert!(deq(&(!u).dg(), &u.not().dg()) && deq(&(!&u).dg(), &u.not().dg()), "Not for BUint / &BUint");
            assert!(deq(&(!s).dg(), &s.not().dg()) && deq(&(!&s).dg(), &s.not().dg()), "Not for BInt / &BInt");
            if !is_min_s(&ud) {
                let e = s.wrapping_neg().dg();
                assert!(deq(&(-s).dg(), &e) && deq(&(-&s).dg(), &e) && deq(&s.neg().dg(), &e), "Neg for BInt / &BInt / inherent");
            }
            assert!(<$U>::default().is_zero() && <$I>::default().is_zero(), "Default is zero");
            $crate::reach!(dneg(&ud), "negative");
        });
    };
}

/// shifts: reference and assign forms for the twelve primitive amount types, in-range amounts
#[macro_export]
macro_rules! c17_shift_forms {
    ($name:ident, $unw:expr, $T:ty, $D:ty, $N:expr) => {
        $crate::harness!($name, $unw, {
            use $crate::util::*;
            const BITS: u32 = <$D>::BITS * $N;
            let (x, _) = <$T as BN<$D, $N>>::any();
            let a: u32 = $crate::nd::nd();
            $crate::nd::assume(a < BITS && a < 128);
            let sel: u8 = $crate::nd::nd();
            let form: u8 = $crate::nd::nd();
            $crate::nd::assume(sel < 12 && form < 4);
            let (l, r) = (<$T>::shl(x, a).dg(), <$T>::shr(x, a).dg());
            macro_rules! forms {
                ($v:expr) => {{
                    let v = $v;
                    match form {
                        0 => ((&x << v).dg(), (&x >> v).dg()),
                        1 => ((x << &v).dg(), (x >> &v).dg()),
                        2 => ((&x << &v).dg(), (&x >> &v).dg()),
                        _ => { let mut z = x; z <<= v; let mut w = x; w >>= &v; (z.dg(), w.dg()) }
                    }
                }};
            }
            let (fl, fr) = match sel {
                0 => forms!(a as u8), 1 => forms!(a as u16), 2 => forms!(a as u32), 3 => forms!(a as u64), 4 => forms!(a as u128), 5 => forms!(a as usize),
                6 => forms!(a as i8), 7 => forms!(a as i16), 8 => forms!(a as i32), 9 => forms!(a as i64), 10 => forms!(a as i128), _ => forms!(a as isize),
            };
            assert!(deq(&fl, &l) && deq(&fr, &r), "reference / assign shift forms equal the inherent shift");
            $crate::reach!(sel == 6 && form == 3 && a > 0, "i8 amount, assign form");
            $crate::reach!(sel == 4 && form == 2, "u128 amount, & & form");
        });
    };
}

/// shifts by bnum-typed amounts below BITS (unsigned and signed amount types, M digits)
#[macro_export]
macro_rules! c17_shift_bnum {
    ($name:ident, $unw:expr, $T:ty, $D:ty, $N:expr, $AU:ty, $AI:ty, $AD:ty, $M:expr) => {
        $crate::harness!($name, $unw, {
            use $crate::util::*;
            const BITS: u32 = <$D>::BITS * $N;
            let (x, _) = <$T as BN<$D, $N>>::any();
            let (au, aud) = <$AU as BN<$AD, $M>>::any();
            let av = dval_u128(&aud);
            $crate::nd::assume(av < BITS as u128);
            let ai = <$AI>::from_bits(au); // non-negative since av < BITS <= 2^15 ... checked below
            $crate::nd::assume(!dneg(&aud));
            let a = av as u32;
            let (l, r) = (<$T>::shl(x, a).dg(), <$T>::shr(x, a).dg());
            assert!(deq(&(x << au).dg(), &l) && deq(&(x >> au).dg(), &r), "unsigned bnum amount");
            assert!(deq(&(x << ai).dg(), &l) && deq(&(x >> ai).dg(), &r), "signed bnum amount");
            assert!(deq(&(&x << &au).dg(), &l) && deq(&(x >> &ai).dg(), &r), "reference forms");
            let mut z = x; z <<= au; let mut w = x; w >>= &ai;
            assert!(deq(&z.dg(), &l) && deq(&w.dg(), &r), "assign forms");
            $crate::reach!(a > <$D>::BITS || $N == 1, "amount beyond one digit");
        });
    };
}

/// Sum / Product over slices of length 0..=3 equal the left fold from ZERO / ONE
#[macro_export]
macro_rules! c17_fold {
    ($name:ident, $unw:expr, $T:ty, $D:ty, $N:expr, $prod:expr) => {
        $crate::harness!($name, $unw, {
            use $crate::util::*;
            let (a, _) = <$T as BN<$D, $N>>::any();
            let (b, _) = <$T as BN<$D, $N>>::any();
            let (c, _) = <$T as BN<$D, $N>>::any();
            let arr = [a, b, c];
            let len: usize = $crate::nd::nd();
            $crate::nd::assume(len <= 3);
            // left fold with checked arithmetic; only non-overflowing folds are compared (both sides panic otherwise)
            let mut acc = Some(<$T>::ZERO);
            let mut k = 0;
            while k < 3 { if k < len { acc = match acc { Some(v) => v.checked_add(arr[k]), None => None }; } k += 1; }
            if let Some(e) = acc {
                let s1: $T = arr[..len].iter().sum();
                let s2: $T = arr[..len].iter().copied().sum();
                assert!(deq(&s1.dg(), &e.dg()) && deq(&s2.dg(), &e.dg()), "Sum == left fold with + from ZERO");
            }
            if $prod {
                let mut acc = Some(<$T>::ONE);
                let mut k = 0;
                while k < 3 { if k < len { acc = match acc { Some(v) => v.checked_mul(arr[k]), None => None }; } k += 1; }
                if let Some(e) = acc {
                    let p1: $T = arr[..len].iter().product();
                    let p2: $T = arr[..len].iter().copied().product();
                    assert!(deq(&p1.dg(), &e.dg()) && deq(&p2.dg(), &e.dg()), "Product == left fold with * from ONE");
                }
            }
            $crate::reach!(len == 0, "empty"); $crate::reach!(len == 3 && acc.is_some(), "three elements");
        });
    };
}

/// BUint op digit: Add / Div / Rem with a digit operand equal the full-width operation when representable
#[macro_export]
macro_rules! c17_digit_ops {
    ($name:ident, $unw:expr, $U:ty, $D:ty, $N:expr, $gen:ident, $div:expr) => {
        $crate::harness!($name, $unw, {
            use $crate::util::*;
            let (x, _) = <$U as BN<$D, $N>>::$gen();
            let d: $D = $crate::nd::nd();
            let dd = <$U>::from_digit(d);
            if let Some(e) = x.checked_add(dd) { assert!(deq(&(x + d).dg(), &e.dg()), "BUint + digit"); }
            if $div && d != 0 {
                assert!(deq(&(x / d).dg(), &(x / dd).dg()), "BUint / digit");
                let r: $D = x % d;
                assert!(deq(&<$U>::from_digit(r).dg(), &(x % dd).dg()), "BUint % digit");
            }
            $crate::reach!(d != 0, "non-zero digit");
        });
    };
}

/// the reference / assign shift forms panic for an out-of-range amount exactly like the by-value operator
#[macro_export]
macro_rules! c17_shift_forms_panic {
    ($name:ident, $unw:expr, $T:ty, $D:ty, $N:expr) => {
        $crate::panic_harness!($name, $unw, {
            use $crate::util::*;
            const BITS: u32 = <$D>::BITS * $N;
            let (x, _) = <$T as BN<$D, $N>>::any();
            let r: i128 = $crate::nd::nd();
            let sel: u8 = $crate::nd::nd();
            let form: u8 = $crate::nd::nd();
            $crate::nd::assume(sel < 12 && form < 4);
            let (in_range, _amt): (bool, u32) = $crate::c04_shift!(@amount r, sel);
            $crate::nd::assume(!in_range);
            $crate::reach!(sel == 3 && form == 0 && (r as u64) > u32::MAX as u64 && (r as u64) & 0xffff_ffff < BITS as u64, "u64 amount above u32::MAX with small low bits");
            $crate::reach!(sel == 9 && form == 3, "i64 amount, assign form");
            macro_rules! forms {
                ($v:expr) => {{
                    let v = $v;
                    match form {
                        0 => { let _ = &x << v; }
                        1 => { let _ = x >> &v; }
                        2 => { let _ = &x << &v; }
                        _ => { let mut z = x; z >>= v; }
                    }
                }};
            }
            match sel {
                0 => forms!(r as u8), 1 => forms!(r as u16), 2 => forms!(r as u32), 3 => forms!(r as u64), 4 => forms!(r as u128), 5 => forms!(r as usize),
                6 => forms!(r as i8), 7 => forms!(r as i16), 8 => forms!(r as i32), 9 => forms!(r as i64), 10 => forms!(r), _ => forms!(r as isize),
            }
            $crate::noreturn!("a reference / assign shift form returned for an out-of-range amount");
        });
    };
}
