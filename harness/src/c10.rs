//! C10 - parsing accepts exactly the integer grammar and returns the denoted value.
//! Oracle: a reference parser over the same byte buffer (sign, per-byte digit value, Horner in u64 - the bounds on
//! length and radix keep radix^len below 2^63, so the reference value is exact).

#[derive(Clone, Copy, PartialEq, Debug)]
pub enum RefKind { Empty, Invalid, Pos, Neg }

/// digit value of an ASCII byte in the from_str grammar (255 = not a digit)
#[inline(always)]
pub fn ref_digit(c: u8) -> u8 {
    if c >= b'0' && c <= b'9' { c - b'0' } else if c >= b'a' && c <= b'z' { c - b'a' + 10 } else if c >= b'A' && c <= b'Z' { c - b'A' + 10 } else { 255 }
}

/// Reference result for `from_str_radix`: Ok((negative, magnitude)) or Err((kind, must_be_invalid_digit))
/// `must_be_invalid_digit`: the string has an invalid character and is too short for its digit count to overflow.
#[inline(always)]
pub fn ref_parse<const L: usize>(buf: &[u8; L], len: usize, radix: u32, signed: bool, w: u32) -> Result<(bool, u64), (RefKind, bool)> {
    if len == 0 { return Err((RefKind::Empty, false)); }
    let neg = signed && buf[0] == b'-';
    let start = if buf[0] == b'+' || neg { 1 } else { 0 };
    if start == len { return Err((RefKind::Invalid, true)); }
    let (umax, smax): (u64, u64) = ((1u64 << w) - 1, (1u64 << (w - 1)) - 1);
    let limit = if !signed { umax } else if neg { smax + 1 } else { smax };
    let mut v: u64 = 0;
    let mut most: u64 = 0; // largest value any string with this many digits can denote
    let mut invalid = false;
    let mut i = 0;
    while i < L {
        if i >= start && i < len {
            let d = ref_digit(buf[i]);
            if d as u32 >= radix { invalid = true; } else { v = v * radix as u64 + d as u64; }
            most = most * radix as u64 + (radix as u64 - 1);
        }
        i += 1;
    }
    if invalid { return Err((RefKind::Invalid, most <= limit)); }
    if v <= limit { Ok((neg, v)) } else { Err((if neg { RefKind::Neg } else { RefKind::Pos }, false)) }
}

/// from_str_radix / FromStr over an ASCII buffer of symbolic length.  RLO..=RHI is the (symbolic) radix range.
#[macro_export]
macro_rules! c10_str {
    ($name:ident, $unw:expr, $T:ty, $D:ty, $N:expr, $L:expr, $MAXLEN:expr, $RLO:expr, $RHI:expr) => {
        $crate::harness!($name, $unw, {
            use $crate::util::*;
            use $crate::c10::*;
            use core::num::IntErrorKind;
            const W: u32 = <$D>::BITS * $N;
            const S: bool = <$T as BN<$D, $N>>::SIGNED;
            let buf: [u8; $L] = $crate::nd::nd();
            let len: usize = $crate::nd::nd();
            $crate::nd::assume(len <= $MAXLEN);
            let mut k = 0;
            while k < $L { $crate::nd::assume(buf[k] < 0x80); k += 1; }
            let radix: u32 = if $RLO == $RHI { $RLO } else { let r: u32 = $crate::nd::nd(); $crate::nd::assume(r >= $RLO && r <= $RHI); r };
            // all bytes are ASCII, hence valid UTF-8
            let s: &str = unsafe { core::str::from_utf8_unchecked(&buf[..len]) };
            let got = <$T>::from_str_radix(s, radix);
            let want = ref_parse::<$L>(&buf, len, radix, S, W);
            match (&got, &want) {
                (Ok(v), Ok((neg, mag))) => {
                    let e: u128 = if *neg { (0u128.wrapping_sub(*mag as u128)) & ((1u128 << W) - 1) } else { *mag as u128 };
                    assert!(dval_u128(&v.dg()) == e, "Ok(the denoted value)");
                }
                (Err(e), Err((kind, must_invalid))) => {
                    match kind {
                        RefKind::Empty => assert!(*e.kind() == IntErrorKind::Empty, "empty string: Empty"),
                        RefKind::Pos => assert!(*e.kind() == IntErrorKind::PosOverflow, "valid but too large: PosOverflow"),
                        RefKind::Neg => assert!(*e.kind() == IntErrorKind::NegOverflow, "valid but too small: NegOverflow"),
                        RefKind::Invalid => if *must_invalid { assert!(*e.kind() == IntErrorKind::InvalidDigit, "invalid character in a string too short to overflow: InvalidDigit"); },
                    }
                }
                (Ok(_), Err(_)) => assert!(false, "accepted a string outside the grammar / range"),
                (Err(_), Ok(_)) => assert!(false, "rejected a valid representable numeral"),
            }
            if radix == 10 {
                let fs = <$T as core::str::FromStr>::from_str(s);
                assert!(match (&fs, &got) { (Ok(a), Ok(b)) => deq(&a.dg(), &b.dg()), (Err(a), Err(b)) => a.kind() == b.kind(), _ => false }, "FromStr == from_str_radix(10)");
            }
            $crate::reach!(len == $MAXLEN && want.is_ok() && buf[if S { 1 } else { 0 }] == b'0', "longest string accepted with a leading zero");
            $crate::reach!(matches!(want, Err((RefKind::Pos, _))), "positive overflow");
            $crate::reach!(matches!(want, Err((RefKind::Invalid, true))), "invalid digit");
            $crate::reach!(len == 1 && want.is_err() && buf[0] == b'+', "lone sign");
        });
    };
}

/// parse_bytes over arbitrary bytes (UTF-8 validation included)
#[macro_export]
macro_rules! c10_bytes {
    ($name:ident, $unw:expr, $T:ty, $D:ty, $N:expr, $L:expr, $R:expr) => {
        $crate::harness!($name, $unw, {
            use $crate::util::*;
            use $crate::c10::*;
            const W: u32 = <$D>::BITS * $N;
            const S: bool = <$T as BN<$D, $N>>::SIGNED;
            let buf: [u8; $L] = $crate::nd::nd();
            let len: usize = $crate::nd::nd();
            $crate::nd::assume(len <= $L);
            let got = <$T>::parse_bytes(&buf[..len], $R);
            let mut ascii = true;
            let mut k = 0;
            while k < $L { if k < len { ascii &= buf[k] < 0x80; } k += 1; }
            if ascii {
                match (got, ref_parse::<$L>(&buf, len, $R, S, W)) {
                    (Some(v), Ok((neg, mag))) => {
                        let e: u128 = if neg { (0u128.wrapping_sub(mag as u128)) & ((1u128 << W) - 1) } else { mag as u128 };
                        assert!(dval_u128(&v.dg()) == e, "Some(the denoted value)");
                    }
                    (None, Err(_)) => {}
                    _ => assert!(false, "parse_bytes disagrees with the grammar"),
                }
            } else {
                assert!(got.is_none(), "non-ASCII bytes are never accepted");
            }
            $crate::reach!(!ascii, "non-ASCII input");
            $crate::reach!(ascii && got.is_some() && len == $L, "accepted");
        });
    };
}

/// from_radix_be / from_radix_le: digit slices, radix 2..=256
#[macro_export]
macro_rules! c10_digits {
    ($name:ident, $unw:expr, $T:ty, $D:ty, $N:expr, $L:expr, $RLO:expr, $RHI:expr) => {
        $crate::harness!($name, $unw, {
            use $crate::util::*;
            const W: u32 = <$D>::BITS * $N;
            let buf: [u8; $L] = $crate::nd::nd();
            let len: usize = $crate::nd::nd();
            $crate::nd::assume(len <= $L);
            let radix: u32 = if $RLO == $RHI { $RLO } else { let r: u32 = $crate::nd::nd(); $crate::nd::assume(r >= $RLO && r <= $RHI); r };
            // value read most-significant-first (be) and least-significant-first (le); u128 accumulators with an overflow latch
            let (mut vbe, mut vle, mut valid) = (0u128, 0u128, true);
            let (mut obe, mut ole) = (false, false);
            let mut i = 0;
            while i < $L {
                if i < len {
                    valid &= (buf[i] as u32) < radix;
                    vbe = vbe * radix as u128 + buf[i] as u128;
                    if vbe >> W != 0 { obe = true; vbe &= (1u128 << W) - 1; }
                    let d = buf[len - 1 - i];
                    vle = vle * radix as u128 + d as u128;
                    if vle >> W != 0 { ole = true; vle &= (1u128 << W) - 1; }
                }
                i += 1;
            }
            let be = <$T>::from_radix_be(&buf[..len], radix);
            let le = <$T>::from_radix_le(&buf[..len], radix);
            if valid {
                match be { Some(v) => assert!(!obe && dval_u128(&v.dg()) == vbe, "from_radix_be: the denoted value"), None => assert!(obe, "from_radix_be: None only when the value does not fit") }
                match le { Some(v) => assert!(!ole && dval_u128(&v.dg()) == vle, "from_radix_le: the denoted value"), None => assert!(ole, "from_radix_le: None only when the value does not fit") }
            } else {
                assert!(be.is_none() && le.is_none(), "a digit >= radix is never accepted");
            }
            $crate::reach!(valid && !obe && len == $L && buf[0] == 0 && vbe != 0, "be: leading zero digit accepted");
            $crate::reach!(valid && !ole && len == $L && buf[$L - 1] == 0 && vle != 0, "le: trailing (most significant) zero digit accepted");
            $crate::reach!(valid && obe, "overflow");
            $crate::reach!(!valid || radix == 256, "invalid digit");
            $crate::reach!(len == 0, "empty slice is zero");
        });
    };
}

/// out-of-range radix panics (and nothing else does: the harnesses above have no reachable panic)
#[macro_export]
macro_rules! c10_radix_panic {
    ($name:ident, $unw:expr, $U:ty, $I:ty) => {
        $crate::panic_harness!($name, $unw, {
            let sel: u8 = $crate::nd::nd();
            let which: u8 = $crate::nd::nd();
            $crate::nd::assume(sel < 8 && which < 4);
            let b = [1u8, 0u8];
            // concrete out-of-range radices: the range assertion is the first thing every entry point does
            macro_rules! each { ($hi:expr, $f:expr) => { match which { 0 => { let _ = $f(0u32); } 1 => { let _ = $f(1u32); } 2 => { let _ = $f($hi); } _ => { let _ = $f(u32::MAX); } } }; }
            $crate::reach!(sel == 0 && which == 2, "radix 37");
            $crate::reach!(sel == 5 && which == 2, "radix 257");
            $crate::reach!(sel == 2 && which == 1, "radix 1");
            match sel {
                0 => each!(37u32, |r| <$U>::from_str_radix("10", r).is_ok()),
                1 => each!(37u32, |r| <$I>::from_str_radix("-1", r).is_ok()),
                2 => each!(37u32, |r| <$U>::parse_bytes(b"10", r).is_some()),
                3 => each!(37u32, |r| <$I>::parse_bytes(b"10", r).is_some()),
                4 => each!(257u32, |r| <$U>::from_radix_be(&b, r).is_some()),
                5 => each!(257u32, |r| <$U>::from_radix_le(&b, r).is_some()),
                6 => each!(257u32, |r| <$I>::from_radix_be(&b, r).is_some()),
                _ => each!(257u32, |r| <$I>::from_radix_le(&b, r).is_some()),
            }
            $crate::noreturn!("out-of-range radix accepted");
        });
    };
}

/// Reference parser for widths up to 128 bits (u128 Horner with overflow tracking): same contract as `ref_parse`.
#[inline(always)]
pub fn ref_parse128<const L: usize>(buf: &[u8; L], len: usize, radix: u32, signed: bool, w: u32) -> Result<(bool, u128), (RefKind, bool)> {
    if len == 0 { return Err((RefKind::Empty, false)); }
    let neg = signed && buf[0] == b'-';
    let start = if buf[0] == b'+' || neg { 1 } else { 0 };
    if start == len { return Err((RefKind::Invalid, true)); }
    let umax: u128 = if w == 128 { u128::MAX } else { (1u128 << w) - 1 };
    let smax: u128 = (1u128 << (w - 1)) - 1;
    let limit = if !signed { umax } else if neg { smax + 1 } else { smax };
    let mut v: u128 = 0;
    let mut over = false; // the exact value exceeds u128
    let mut most: u128 = 0;
    let mut most_over = false;
    let mut invalid = false;
    let mut i = 0;
    while i < L {
        if i >= start && i < len {
            let d = ref_digit(buf[i]);
            if d as u32 >= radix { invalid = true; } else {
                match v.checked_mul(radix as u128) { Some(m) => match m.checked_add(d as u128) { Some(s) => v = s, None => over = true }, None => over = true }
            }
            match most.checked_mul(radix as u128) { Some(m) => match m.checked_add(radix as u128 - 1) { Some(s) => most = s, None => most_over = true }, None => most_over = true }
        }
        i += 1;
    }
    if invalid { return Err((RefKind::Invalid, !most_over && most <= limit)); }
    if !over && v <= limit { Ok((neg, v)) } else { Err((if neg { RefKind::Neg } else { RefKind::Pos }, false)) }
}

/// from_str_radix on strings of CONCRETE length (every byte symbolic): loop trip counts and chunk boundaries are constants, so strings as long as
/// the capacity of 64..128-bit types (+ leading zeros / one digit too many) are within reach.
#[macro_export]
macro_rules! c10_str_fixed {
    ($name:ident, $unw:expr, $T:ty, $D:ty, $N:expr, $LEN:expr, $R:expr, $FIRST:expr) => {
        $crate::harness!($name, $unw, {
            use $crate::util::*;
            use $crate::c10::*;
            use core::num::IntErrorKind;
            const W: u32 = <$D>::BITS * $N;
            const S: bool = <$T as BN<$D, $N>>::SIGNED;
            // the first byte (sign or leading digit) is concrete: it decides where the digits start, i.e. every slice length below
            let mut buf: [u8; $LEN] = $crate::nd::nd();
            buf[0] = $FIRST;
            let mut k = 0;
            while k < $LEN { $crate::nd::assume(buf[k] < 0x80); k += 1; }
            let s: &str = unsafe { core::str::from_utf8_unchecked(&buf[..]) };
            let got = <$T>::from_str_radix(s, $R);
            let want = ref_parse128::<$LEN>(&buf, $LEN, $R, S, W);
            match (&got, &want) {
                (Ok(v), Ok((neg, mag))) => {
                    let mask: u128 = if W == 128 { u128::MAX } else { (1u128 << W) - 1 };
                    let e: u128 = if *neg { 0u128.wrapping_sub(*mag) & mask } else { *mag };
                    assert!(dval_u128(&v.dg()) == e, "Ok(the denoted value)");
                }
                (Err(e), Err((kind, must_invalid))) => {
                    match kind {
                        RefKind::Empty => assert!(*e.kind() == IntErrorKind::Empty, "empty string: Empty"),
                        RefKind::Pos => assert!(*e.kind() == IntErrorKind::PosOverflow, "valid but too large: PosOverflow"),
                        RefKind::Neg => assert!(*e.kind() == IntErrorKind::NegOverflow, "valid but too small: NegOverflow"),
                        RefKind::Invalid => if *must_invalid { assert!(*e.kind() == IntErrorKind::InvalidDigit, "invalid character in a string too short to overflow: InvalidDigit"); },
                    }
                }
                (Ok(_), Err(_)) => assert!(false, "accepted a string outside the grammar / range"),
                (Err(_), Ok(_)) => assert!(false, "rejected a valid representable numeral"),
            }
            $crate::reach!(want.is_ok() && buf[$LEN - 1] != b'0', "accepted, non-zero last digit");
            $crate::reach!(want.is_err(), "rejected");
            $crate::reach!(matches!(want, Err((RefKind::Invalid, _))), "invalid digit");
        });
    };
}
