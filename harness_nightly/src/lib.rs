//! Harnesses for the parts of bnum that only exist with its `nightly` feature (`to/from_{be,le,ne}_bytes`, which need
//! `generic_const_exprs`).  Built by Kani's own pinned nightly toolchain; shares nd.rs / util.rs with the main harness crate.
#![allow(unused, incomplete_features, clippy::all)]
#![feature(generic_const_exprs)]

#[path = "../../harness/src/nd.rs"]
pub mod nd;
#[path = "../../harness/src/util.rs"]
pub mod util;
pub mod c15n;

#[cfg(feature = "c15")]
mod gen_c15 {
    include!("gen/c15.rs");
}
