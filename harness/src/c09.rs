//! C09 - integer casts follow `as`: the target holds the source value reduced mod 2^(target BITS),
//! zero-/sign-extended according to the SOURCE signedness.  Bit-indexed specification with a symbolic index:
//!     out[i] == (i < W_src ? src[i] : (src is signed && src < 0))      for every i < W_dst

/// one source bnum type, a list of bnum target types (any digit type / width / signedness)
#[macro_export]
macro_rules! c09_from {
    ($name:ident, $unw:expr, $S:ty, $SD:ty, $SN:expr; $(($T:ty, $TD:ty, $TN:expr)),+) => {
        $crate::harness!($name, $unw, {
            use $crate::util::*;
            use bnum::cast::{As, CastFrom};
            let (s, sd) = <$S as BN<$SD, $SN>>::any();
            const SS: bool = <$S as BN<$SD, $SN>>::SIGNED;
            $({
                let i: u32 = $crate::nd::nd();
                $crate::nd::assume(i < <$TD>::BITS * $TN);
                let t: $T = s.as_();
                assert!(dbit(&t.dg(), i) == xbit(&sd, SS, i), "As cast bit");
                let t2 = <$T as CastFrom<$S>>::cast_from(s);
                assert!(deq(&t2.dg(), &t.dg()), "CastFrom == As");
            })+
            $crate::reach!(SS == dneg(&sd), "negative source / top bit set");
        });
    };
}

/// one bnum type against all twelve primitive integers (both directions), bool, char, and the reinterpreting casts
#[macro_export]
macro_rules! c09_prim {
    ($name:ident, $unw:expr, $U:ty, $I:ty, $D:ty, $N:expr) => {
        $crate::harness!($name, $unw, {
            use $crate::util::*;
            use bnum::cast::{As, CastFrom};
            const BITS: u32 = <$D>::BITS * $N;
            let (u, ud) = <$U as BN<$D, $N>>::any();
            let (s, sd) = <$I as BN<$D, $N>>::any();
            macro_rules! one {
                ($P:ty) => {{
                    // primitive -> bnum
                    let p: $P = $crate::nd::nd();
                    let i: u32 = $crate::nd::nd();
                    $crate::nd::assume(i < BITS);
                    let tu: $U = p.as_();
                    let ti: $I = p.as_();
                    assert!(dbit(&tu.dg(), i) == p.pbit(i), "primitive as BUint");
                    assert!(dbit(&ti.dg(), i) == p.pbit(i), "primitive as BInt");
                    assert!(deq(&<$U as CastFrom<$P>>::cast_from(p).dg(), &tu.dg()));
                    // bnum -> primitive
                    let j: u32 = $crate::nd::nd();
                    $crate::nd::assume(j < <$P>::BITS);
                    let pu: $P = u.as_();
                    let pi: $P = s.as_();
                    assert!(pu.pbit(j) == xbit(&ud, false, j), "BUint as primitive");
                    assert!(pi.pbit(j) == xbit(&sd, true, j), "BInt as primitive");
                    assert!(<$P as CastFrom<$I>>::cast_from(s) == pi);
                }};
            }
            one!(u8); one!(u16); one!(u32); one!(u64); one!(u128); one!(usize);
            one!(i8); one!(i16); one!(i32); one!(i64); one!(i128); one!(isize);
            // bool / char
            let b: bool = $crate::nd::nd();
            let c32: u32 = $crate::nd::nd();
            $crate::nd::assume(c32 <= 0x10ffff && !(c32 >= 0xd800 && c32 <= 0xdfff));
            let c = char::from_u32(c32).unwrap();
            let i: u32 = $crate::nd::nd();
            $crate::nd::assume(i < BITS);
            assert!(dbit(&b.as_::<$U>().dg(), i) == (i == 0 && b) && dbit(&b.as_::<$I>().dg(), i) == (i == 0 && b), "bool cast");
            assert!(dbit(&c.as_::<$U>().dg(), i) == c32.pbit(i) && dbit(&c.as_::<$I>().dg(), i) == c32.pbit(i), "char cast");
            // reinterpreting casts keep the pattern
            assert!(deq(&u.cast_signed().dg(), &ud) && deq(&s.cast_unsigned().dg(), &sd) && deq(&s.to_bits().dg(), &sd)
                && deq(&<$I>::from_bits(u).dg(), &ud), "cast_signed / cast_unsigned / to_bits / from_bits");
            $crate::reach!(dneg(&sd) && dneg(&ud), "negative");
        });
    };
}
