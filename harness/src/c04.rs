//! C04 - panics occur exactly where the primitive integers panic, per build mode.
//! The "must panic" predicate is the overflow flag of the corresponding overflowing_* method (whose exactness is
//! C01 / C02 / C05 / C08) or the explicit range condition of the shift amount.  Each family has
//!   *_ok     (debug mode)  predicate false  => no panic possible, value == wrapping value
//!   *_panic  (debug mode)  predicate true   => the call cannot return
//!   *_rel    (release mode) any input       => no panic, value == wrapping value
//! Harnesses are compiled twice by the driver: debug assertions on (mode dbg) and off (mode rel).

#[macro_export]
macro_rules! c04_flag {
    (ok, ok) => { true };
    (full, full) => { true };
    ($a:ident, $b:ident) => { false };
}

/// `$mode` = ok | panic | rel.   Operators + - (unary -) and abs / next_power_of_two.
#[macro_export]
macro_rules! c04_lin_ops {
    (@sel $ua:ident, $ub:ident, $a:ident, $b:ident, $sel:ident) => {
        // (overflow flag, wrapping value digits) of the selected operation
        match $sel {
            0 => { let (v, f) = $ua.overflowing_add($ub); (f, v.dg()) }
            1 => { let (v, f) = $ua.overflowing_sub($ub); (f, v.dg()) }
            2 => { match $ua.checked_next_power_of_two() { Some(v) => (false, v.dg()), None => (true, $ua.wrapping_next_power_of_two().dg()) } }
            3 => { let (v, f) = $a.overflowing_add($b); (f, v.dg()) }
            4 => { let (v, f) = $a.overflowing_sub($b); (f, v.dg()) }
            5 => { let (v, f) = $a.overflowing_neg(); (f, v.dg()) }
            _ => { let (v, f) = $a.overflowing_abs(); (f, v.dg()) }
        }
    };
    (@call $ua:ident, $ub:ident, $a:ident, $b:ident, $sel:ident) => {
        match $sel {
            0 => ($ua + $ub).dg(),
            1 => ($ua - $ub).dg(),
            2 => $ua.next_power_of_two().dg(),
            3 => ($a + $b).dg(),
            4 => ($a - $b).dg(),
            5 => (-$a).dg(),
            _ => $a.abs().dg(),
        }
    };
    ($name:ident, $unw:expr, $U:ty, $I:ty, $D:ty, $N:expr, panic) => {
        $crate::panic_harness!($name, $unw, {
            use $crate::util::*;
            let (ua, _) = <$U as BN<$D, $N>>::any();
            let (ub, _) = <$U as BN<$D, $N>>::any();
            let (a, b) = (<$I>::from_bits(ua), <$I>::from_bits(ub));
            let sel: u8 = $crate::nd::nd();
            $crate::nd::assume(sel < 7);
            let (f, _w): (bool, [$D; $N]) = $crate::c04_lin_ops!(@sel ua, ub, a, b, sel);
            $crate::nd::assume(f);
            $crate::reach!(sel == 0, "u+"); $crate::reach!(sel == 2, "npot"); $crate::reach!(sel == 5, "neg"); $crate::reach!(sel == 6, "abs");
            let _r: [$D; $N] = $crate::c04_lin_ops!(@call ua, ub, a, b, sel);
            $crate::noreturn!("operator returned although the exact result is unrepresentable");
        });
    };
    ($name:ident, $unw:expr, $U:ty, $I:ty, $D:ty, $N:expr, $mode:ident) => {
        $crate::harness!($name, $unw, {
            use $crate::util::*;
            let (ua, _) = <$U as BN<$D, $N>>::any();
            let (ub, _) = <$U as BN<$D, $N>>::any();
            let (a, b) = (<$I>::from_bits(ua), <$I>::from_bits(ub));
            let sel: u8 = $crate::nd::nd();
            $crate::nd::assume(sel < 7);
            let (f, w): (bool, [$D; $N]) = $crate::c04_lin_ops!(@sel ua, ub, a, b, sel);
            if $crate::c04_flag!(ok, $mode) { $crate::nd::assume(!f); }
            let r: [$D; $N] = $crate::c04_lin_ops!(@call ua, ub, a, b, sel);
            assert!(deq(&r, &w), "value equals the wrapped result");
            $crate::reach!(sel == 0, "u+"); $crate::reach!(sel == 2, "npot"); $crate::reach!(sel == 5, "neg"); $crate::reach!(sel == 6, "abs");
            $crate::reach!(f || $crate::c04_flag!(ok, $mode), "overflowing input returns the wrapped value (release)");
        });
    };
}

/// multiplying family: * pow next_multiple_of (small widths only)
#[macro_export]
macro_rules! c04_mul_ops {
    (@sel $ua:ident, $ub:ident, $a:ident, $b:ident, $e:ident, $sel:ident) => {
        match $sel {
            // for * the predicate is the exact product (harness-side, widths <= 16 bits), not bnum's own flag
            0 => { let v = $ua.wrapping_mul($ub); let p = (dval_u128(&$ua.dg()) as u32) * (dval_u128(&$ub.dg()) as u32); (p >> (8 * core::mem::size_of_val(&$ua) as u32) != 0, v.dg()) }
            1 => { let v = $a.wrapping_mul($b); let p = (dval_i128(&$a.dg()) as i32) * (dval_i128(&$b.dg()) as i32); let w = 8 * core::mem::size_of_val(&$a) as u32;
                   (p < -(1i32 << (w - 1)) || p >= (1i32 << (w - 1)), v.dg()) }
            2 => { let (v, f) = $ua.overflowing_pow($e); (f, v.dg()) }
            3 => { let (v, f) = $a.overflowing_pow($e); (f, v.dg()) }
            4 => { $crate::nd::assume(!$ub.is_zero());
                   match $ua.checked_next_multiple_of($ub) { Some(v) => (false, v.dg()), None => (true, { let r = $ua.wrapping_rem($ub); $ua.wrapping_add($ub.wrapping_sub(r)).dg() }) } }
            _ => { $crate::nd::assume(!$b.is_zero());
                   match $a.checked_next_multiple_of($b) { Some(v) => (false, v.dg()), None => (true, $a.dg()) } }
        }
    };
    (@call $ua:ident, $ub:ident, $a:ident, $b:ident, $e:ident, $sel:ident) => {
        match $sel {
            0 => ($ua * $ub).dg(),
            1 => ($a * $b).dg(),
            2 => $ua.pow($e).dg(),
            3 => $a.pow($e).dg(),
            4 => $ua.next_multiple_of($ub).dg(),
            _ => $a.next_multiple_of($b).dg(),
        }
    };
    ($name:ident, $unw:expr, $U:ty, $I:ty, $D:ty, $N:expr, panic) => {
        $crate::panic_harness!($name, $unw, {
            use $crate::util::*;
            let (ua, _) = <$U as BN<$D, $N>>::any();
            let (ub, _) = <$U as BN<$D, $N>>::any();
            let (a, b) = (<$I>::from_bits(ua), <$I>::from_bits(ub));
            let e: u32 = $crate::nd::nd();
            let sel: u8 = $crate::nd::nd();
            $crate::nd::assume(sel < 6);
            let (f, _w): (bool, [$D; $N]) = $crate::c04_mul_ops!(@sel ua, ub, a, b, e, sel);
            $crate::nd::assume(f);
            $crate::reach!(sel == 0, "u*"); $crate::reach!(sel == 3, "ipow"); $crate::reach!(sel == 5, "i next_multiple_of");
            let _r: [$D; $N] = $crate::c04_mul_ops!(@call ua, ub, a, b, e, sel);
            $crate::noreturn!("operator returned although the exact result is unrepresentable");
        });
    };
    ($name:ident, $unw:expr, $U:ty, $I:ty, $D:ty, $N:expr, $mode:ident) => {
        $crate::harness!($name, $unw, {
            use $crate::util::*;
            let (ua, _) = <$U as BN<$D, $N>>::any();
            let (ub, _) = <$U as BN<$D, $N>>::any();
            let (a, b) = (<$I>::from_bits(ua), <$I>::from_bits(ub));
            let e: u32 = $crate::nd::nd();
            let sel: u8 = $crate::nd::nd();
            $crate::nd::assume(sel < 6);
            let (f, w): (bool, [$D; $N]) = $crate::c04_mul_ops!(@sel ua, ub, a, b, e, sel);
            if $crate::c04_flag!(ok, $mode) { $crate::nd::assume(!f); }
            let r: [$D; $N] = $crate::c04_mul_ops!(@call ua, ub, a, b, e, sel);
            // signed next_multiple_of on overflow (release): any wrapped value is accepted, only "no panic" is asserted
            if !(sel == 5 && f) { assert!(deq(&r, &w), "value equals the wrapped result"); }
            $crate::reach!(sel == 0, "u*"); $crate::reach!(sel == 3, "ipow"); $crate::reach!(sel == 4, "u next_multiple_of");
            $crate::reach!(f || $crate::c04_flag!(ok, $mode), "overflowing input returns the wrapped value (release)");
        });
    };
}

/// << and >> with each of the twelve primitive integer types as the amount.  $T is the shifted type.
#[macro_export]
macro_rules! c04_shift {
    (@amount $r:ident, $sel:ident) => {
        // (amount is an integer in 0..BITS ?, amount reduced as the release build does: `as u32`)
        match $sel {
            0 => ((($r as u8) as u128) < BITS as u128, ($r as u8) as u32),
            1 => ((($r as u16) as u128) < BITS as u128, ($r as u16) as u32),
            2 => ((($r as u32) as u128) < BITS as u128, ($r as u32)),
            3 => ((($r as u64) as u128) < BITS as u128, ($r as u64) as u32),
            4 => ((($r as u128)) < BITS as u128, ($r as u128) as u32),
            5 => ((($r as usize) as u128) < BITS as u128, ($r as usize) as u32),
            6 => (($r as i8) >= 0 && (($r as i8) as i128) < BITS as i128, ($r as i8) as u32),
            7 => (($r as i16) >= 0 && (($r as i16) as i128) < BITS as i128, ($r as i16) as u32),
            8 => (($r as i32) >= 0 && (($r as i32) as i128) < BITS as i128, ($r as i32) as u32),
            9 => (($r as i64) >= 0 && (($r as i64) as i128) < BITS as i128, ($r as i64) as u32),
            10 => ($r >= 0 && $r < BITS as i128, $r as u32),
            _ => (($r as isize) >= 0 && (($r as isize) as i128) < BITS as i128, ($r as isize) as u32),
        }
    };
    (@call $x:ident, $r:ident, $sel:ident, $op:tt) => {
        match $sel {
            0 => ($x $op ($r as u8)).dg(), 1 => ($x $op ($r as u16)).dg(), 2 => ($x $op ($r as u32)).dg(), 3 => ($x $op ($r as u64)).dg(),
            4 => ($x $op ($r as u128)).dg(), 5 => ($x $op ($r as usize)).dg(), 6 => ($x $op ($r as i8)).dg(), 7 => ($x $op ($r as i16)).dg(),
            8 => ($x $op ($r as i32)).dg(), 9 => ($x $op ($r as i64)).dg(), 10 => ($x $op $r).dg(), _ => ($x $op ($r as isize)).dg(),
        }
    };
    ($name:ident, $unw:expr, $T:ty, $D:ty, $N:expr, $op:tt, $chk:ident, $wr:ident, panic) => {
        $crate::panic_harness!($name, $unw, {
            use $crate::util::*;
            const BITS: u32 = <$D>::BITS * $N;
            let (x, _) = <$T as BN<$D, $N>>::any();
            let r: i128 = $crate::nd::nd();
            let sel: u8 = $crate::nd::nd();
            $crate::nd::assume(sel < 12);
            let (in_range, _amt): (bool, u32) = $crate::c04_shift!(@amount r, sel);
            $crate::nd::assume(!in_range);
            $crate::reach!(sel == 0, "u8 amount >= BITS"); $crate::reach!(sel == 6 && (r as i8) < 0, "negative i8"); $crate::reach!(sel == 4 && (r as u128) > u32::MAX as u128, "u128 above u32::MAX");
            $crate::reach!(sel == 10 && r == BITS as i128, "amount == BITS");
            let _v: [$D; $N] = $crate::c04_shift!(@call x, r, sel, $op);
            $crate::noreturn!("shift returned for a negative amount or an amount >= BITS");
        });
    };
    ($name:ident, $unw:expr, $T:ty, $D:ty, $N:expr, $op:tt, $chk:ident, $wr:ident, $mode:ident) => {
        $crate::harness!($name, $unw, {
            use $crate::util::*;
            const BITS: u32 = <$D>::BITS * $N;
            let (x, _) = <$T as BN<$D, $N>>::any();
            let r: i128 = $crate::nd::nd();
            let sel: u8 = $crate::nd::nd();
            $crate::nd::assume(sel < 12);
            let (in_range, amt): (bool, u32) = $crate::c04_shift!(@amount r, sel);
            if $crate::c04_flag!(ok, $mode) { $crate::nd::assume(in_range); }
            let v: [$D; $N] = $crate::c04_shift!(@call x, r, sel, $op);
            if in_range {
                assert!(deq(&v, &x.$chk(amt).unwrap().dg()), "in-range amount: the exact shift");
            } else {
                assert!(deq(&v, &x.$wr(amt).dg()), "release build: amount reduced (`as u32`, then masked) - the wrapped result");
            }
            $crate::reach!(sel == 1, "u16"); $crate::reach!(sel == 11 && amt > 0, "isize"); $crate::reach!(sel == 4, "u128");
            $crate::reach!(!in_range || $crate::c04_flag!(ok, $mode), "out-of-range amount wraps (release)");
        });
    };
}

/// panics in both build modes: zero divisor (operators and every non-checked method), MIN / -1 and MIN % -1 through the
/// operators, ilog of a non-positive value or with base < 2
#[macro_export]
macro_rules! c04_div_log_panic {
    ($name:ident, $unw:expr, $U:ty, $I:ty, $D:ty, $N:expr) => {
        $crate::panic_harness!($name, $unw, {
            use $crate::util::*;
            let (ua, uad) = <$U as BN<$D, $N>>::any();
            let (ub, ubd) = <$U as BN<$D, $N>>::any();
            let (a, b) = (<$I>::from_bits(ua), <$I>::from_bits(ub));
            let sel: u8 = $crate::nd::nd();
            $crate::nd::assume(sel < 34);
            let zero = dzero(&ubd);
            let min_m1 = is_min_s(&uad) && is_all_ones(&ubd);
            let one_or_less = { let mut hi = true; let mut k = 1; while k < $N { hi &= ubd[k] == 0; k += 1; } hi && ubd[0].to_u64() <= 1 };
            // must-panic predicate per selected call
            let must = match sel {
                0..=15 => zero,                    // unsigned division family
                16..=17 => zero || min_m1,         // signed / and %
                18..=27 => zero,                   // signed wrapping_/overflowing_/saturating_ division family
                28 => dzero(&uad),                 // ilog2 of zero
                29 => dzero(&uad),                 // ilog10 of zero
                30 => dzero(&uad) || one_or_less,  // ilog(base): zero value or base < 2
                31 => dzero(&uad) || dneg(&uad),   // signed ilog2 of a non-positive value
                32 => dzero(&uad) || dneg(&uad),
                _ => dzero(&uad) || dneg(&uad) || dneg(&ubd) || one_or_less,
            };
            $crate::nd::assume(must);
            $crate::reach!(sel == 0, "u /"); $crate::reach!(sel == 16 && min_m1, "MIN / -1"); $crate::reach!(sel == 17 && min_m1, "MIN % -1");
            $crate::reach!(sel == 30 && !dzero(&uad), "base < 2"); $crate::reach!(sel == 33 && dneg(&ubd) && !dneg(&uad) && !dzero(&uad), "negative base");
            $crate::reach!(sel == 27, "saturating_div by zero");
            match sel {
                0 => { let _ = ua / ub; } 1 => { let _ = ua % ub; } 2 => { let _ = ua.div_euclid(ub); } 3 => { let _ = ua.rem_euclid(ub); }
                4 => { let _ = ua.wrapping_div(ub); } 5 => { let _ = ua.wrapping_rem(ub); } 6 => { let _ = ua.wrapping_div_euclid(ub); } 7 => { let _ = ua.wrapping_rem_euclid(ub); }
                8 => { let _ = ua.overflowing_div(ub); } 9 => { let _ = ua.overflowing_rem(ub); } 10 => { let _ = ua.overflowing_div_euclid(ub); } 11 => { let _ = ua.overflowing_rem_euclid(ub); }
                12 => { let _ = ua.saturating_div(ub); } 13 => { let _ = ua.div_floor(ub); } 14 => { let _ = ua.div_ceil(ub); } 15 => { let _ = ua.next_multiple_of(ub); }
                16 => { let _ = a / b; } 17 => { let _ = a % b; }
                18 => { let _ = a.wrapping_div(b); } 19 => { let _ = a.wrapping_rem(b); } 20 => { let _ = a.wrapping_div_euclid(b); } 21 => { let _ = a.wrapping_rem_euclid(b); }
                22 => { let _ = a.overflowing_div(b); } 23 => { let _ = a.overflowing_rem(b); } 24 => { let _ = a.overflowing_div_euclid(b); } 25 => { let _ = a.overflowing_rem_euclid(b); }
                26 => { let _ = a.div_floor(b); } 27 => { let _ = a.saturating_div(b); }
                28 => { let _ = ua.ilog2(); } 29 => { let _ = ua.ilog10(); } 30 => { let _ = ua.ilog(ub); }
                31 => { let _ = a.ilog2(); } 32 => { let _ = a.ilog10(); } _ => { let _ = a.ilog(b); }
            }
            $crate::noreturn!("division by zero / MIN / -1 / invalid logarithm returned");
        });
    };
}

/// checked_* never panic; wrapping_/overflowing_/saturating_ (non-dividing) never panic.  Arguments unconstrained.
/// `lin`: the linear-cost methods only (any width); `full`: additionally mul / div / rem / pow / ilog (small widths).
#[macro_export]
macro_rules! c04_nopanic {
    ($name:ident, $unw:expr, $U:ty, $I:ty, $D:ty, $N:expr, $what:ident) => {
        $crate::harness!($name, $unw, {
            use $crate::util::*;
            let (ua, _) = <$U as BN<$D, $N>>::any();
            let (ub, _) = <$U as BN<$D, $N>>::any();
            let (a, b) = (<$I>::from_bits(ua), <$I>::from_bits(ub));
            let s: u32 = $crate::nd::nd();
            let mut n = 0u32; // count Some results so that nothing is optimised away and as a reachability witness
            macro_rules! t { ($e:expr) => { if $e.is_some() { n += 1; } }; }
            t!(ua.checked_add(ub)); t!(ua.checked_sub(ub)); t!(ua.checked_neg()); t!(ua.checked_add_signed(b)); t!(ua.checked_shl(s)); t!(ua.checked_shr(s));
            t!(ua.checked_next_power_of_two()); t!(ua.checked_ilog2());
            t!(a.checked_add(b)); t!(a.checked_sub(b)); t!(a.checked_neg()); t!(a.checked_abs()); t!(a.checked_add_unsigned(ub)); t!(a.checked_sub_unsigned(ub));
            t!(a.checked_shl(s)); t!(a.checked_shr(s)); t!(a.checked_ilog2());
            let _ = (ua.wrapping_add(ub), ua.wrapping_sub(ub), ua.wrapping_neg(), ua.wrapping_shl(s), ua.wrapping_shr(s), ua.wrapping_add_signed(b), ua.wrapping_next_power_of_two());
            let _ = (ua.overflowing_add(ub), ua.overflowing_sub(ub), ua.overflowing_neg(), ua.overflowing_shl(s), ua.overflowing_shr(s), ua.overflowing_add_signed(b));
            let _ = (ua.saturating_add(ub), ua.saturating_sub(ub), ua.saturating_add_signed(b));
            let _ = (a.wrapping_add(b), a.wrapping_sub(b), a.wrapping_neg(), a.wrapping_abs(), a.wrapping_shl(s), a.wrapping_shr(s), a.wrapping_add_unsigned(ub), a.wrapping_sub_unsigned(ub));
            let _ = (a.overflowing_add(b), a.overflowing_sub(b), a.overflowing_neg(), a.overflowing_abs(), a.overflowing_shl(s), a.overflowing_shr(s));
            let _ = (a.saturating_add(b), a.saturating_sub(b), a.saturating_neg(), a.saturating_abs(), a.saturating_add_unsigned(ub), a.saturating_sub_unsigned(ub));
            if $crate::c04_flag!(full, $what) {
                t!(ua.checked_mul(ub)); t!(ua.checked_div(ub)); t!(ua.checked_rem(ub)); t!(ua.checked_div_euclid(ub)); t!(ua.checked_rem_euclid(ub));
                t!(ua.checked_pow(s)); t!(ua.checked_next_multiple_of(ub)); t!(ua.checked_ilog10()); t!(ua.checked_ilog(ub));
                t!(a.checked_mul(b)); t!(a.checked_div(b)); t!(a.checked_rem(b)); t!(a.checked_div_euclid(b)); t!(a.checked_rem_euclid(b));
                t!(a.checked_pow(s)); t!(a.checked_next_multiple_of(b)); t!(a.checked_ilog10()); t!(a.checked_ilog(b));
                let _ = (ua.wrapping_mul(ub), ua.overflowing_mul(ub), ua.saturating_mul(ub), ua.wrapping_pow(s), ua.overflowing_pow(s), ua.saturating_pow(s));
                let _ = (a.wrapping_mul(b), a.overflowing_mul(b), a.saturating_mul(b), a.wrapping_pow(s), a.overflowing_pow(s), a.saturating_pow(s));
            }
            $crate::reach!(n > 3, "several Some results");
            $crate::reach!(s > 1000 && ub.is_zero(), "huge shift amount / exponent, zero divisor");
        });
    };
}

/// operators `*`, `/`, `%` with one CONCRETE operand on wide types (64..192 bits): panic exactly when the exact result is unrepresentable
/// (debug), wrapped result without panic (release); the exactness predicate is the harness-side limb product, not bnum's flag.
#[macro_export]
macro_rules! c04_cmul_ops {
    (@pred $ad:ident, $bd:ident, $D:ty, $N:expr, $L:expr, $L2:expr, $sel:ident) => {
        match $sel {
            0 => $crate::c02::umul_overflows::<$D, $N, $L, $L2>(&$ad, &$bd),
            1 => $crate::c02::smul_overflows::<$D, $N, { $N + 1 }, $L, $L2>(&$ad, &$bd),
            // division / remainder by a non-zero constant: only signed MIN / -1 and MIN % -1 are unrepresentable
            2 | 3 => false,
            _ => is_min_s(&$ad) && is_all_ones(&$bd),
        }
    };
    (@call $ua:ident, $ub:ident, $a:ident, $b:ident, $sel:ident) => {
        match $sel { 0 => ($ua * $ub).dg(), 1 => ($a * $b).dg(), 2 => ($ua / $ub).dg(), 3 => ($ua % $ub).dg(), 4 => ($a / $b).dg(), _ => ($a % $b).dg() }
    };
    (@wrap $ua:ident, $ub:ident, $a:ident, $b:ident, $sel:ident) => {
        match $sel { 0 => $ua.wrapping_mul($ub).dg(), 1 => $a.wrapping_mul($b).dg(), 2 => $ua.wrapping_div($ub).dg(), 3 => $ua.wrapping_rem($ub).dg(), 4 => $a.wrapping_div($b).dg(), _ => $a.wrapping_rem($b).dg() }
    };
    ($name:ident, $unw:expr, $U:ty, $I:ty, $D:ty, $N:expr, $L:expr, $L2:expr, [$($bv:expr),*], panic) => {
        $crate::panic_harness!($name, $unw, {
            use $crate::util::*;
            let (ua, ad) = <$U as BN<$D, $N>>::any();
            let bd: [$D; $N] = [$($bv),*];
            let ub = <$U as BN<$D, $N>>::mk(bd);
            let (a, b) = (<$I>::from_bits(ua), <$I>::from_bits(ub));
            let sel: u8 = $crate::nd::nd();
            $crate::nd::assume(sel < 6);
            let f: bool = $crate::c04_cmul_ops!(@pred ad, bd, $D, $N, $L, $L2, sel);
            $crate::nd::assume(f);
            $crate::reach!(sel <= 1, "multiplication overflow");
            let _r: [$D; $N] = $crate::c04_cmul_ops!(@call ua, ub, a, b, sel);
            $crate::noreturn!("operator returned although the exact result is unrepresentable");
        });
    };
    ($name:ident, $unw:expr, $U:ty, $I:ty, $D:ty, $N:expr, $L:expr, $L2:expr, [$($bv:expr),*], $mode:ident) => {
        $crate::harness!($name, $unw, {
            use $crate::util::*;
            let (ua, ad) = <$U as BN<$D, $N>>::any();
            let bd: [$D; $N] = [$($bv),*];
            let ub = <$U as BN<$D, $N>>::mk(bd);
            let (a, b) = (<$I>::from_bits(ua), <$I>::from_bits(ub));
            let sel: u8 = $crate::nd::nd();
            $crate::nd::assume(sel < 6);
            let f: bool = $crate::c04_cmul_ops!(@pred ad, bd, $D, $N, $L, $L2, sel);
            let rel = stringify!($mode) == "rel";
            if !rel { $crate::nd::assume(!f); }
            // MIN / -1 and MIN % -1 panic in both build modes (checked under c04_div_log_panic): excluded here
            if sel >= 4 { $crate::nd::assume(!f); }
            let r: [$D; $N] = $crate::c04_cmul_ops!(@call ua, ub, a, b, sel);
            let w: [$D; $N] = $crate::c04_cmul_ops!(@wrap ua, ub, a, b, sel);
            assert!(deq(&r, &w), "operator result = wrapped exact result (no panic)");
            match sel {
                0 => assert!(ua.checked_mul(ub).is_some() == !f, "checked_mul agrees with the exact predicate"),
                1 => assert!(a.checked_mul(b).is_some() == !f, "signed checked_mul agrees with the exact predicate"),
                _ => {}
            }
            $crate::reach!(sel == 1 && dneg(&ad), "signed product, negative operand");
            $crate::reach!(sel == 4, "signed division");
            $crate::reach!(!rel || f, "release mode: overflowing product wraps");
        });
    };
}
