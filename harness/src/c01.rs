//! C01 - add / sub / neg / abs families are exact mod 2^BITS in every overflow mode.
//! Oracle: exact arithmetic in W = B + 2 byte two's complement (`util::X`), so "flag" is literally
//! "exact result not representable" and saturation is a clamp of the exact result.

/// value-level assertion shared by all projections of one operation
#[macro_export]
macro_rules! c01_check_proj {
    // $exact: X<W>; $signed: bool for the result type; results given as byte arrays / options
    ($B:expr, $exact:expr, $signed:expr, ov=$ov:expr, chk=$chk:expr, wr=$wr:expr, sat=$sat:expr) => {{
        let exact = $exact;
        let fits = exact.fits::<$B>($signed);
        let low = exact.low::<$B>();
        let (v, f): ([u8; $B], bool) = $ov;
        assert!($crate::util::bytes_eq(&v, &low), "overflowing value");
        assert!(f == !fits, "overflow flag");
        let c: Option<[u8; $B]> = $chk;
        match c {
            None => assert!(!fits, "checked None only on overflow"),
            Some(cv) => { assert!(fits, "checked Some only when representable"); assert!($crate::util::bytes_eq(&cv, &low)); }
        }
        let w: [u8; $B] = $wr;
        assert!($crate::util::bytes_eq(&w, &low), "wrapping value");
        let s: Option<[u8; $B]> = $sat;
        if let Some(sv) = s {
            let e = $crate::util::saturate::<$B, { $B + 2 }>(&exact, $signed);
            assert!($crate::util::bytes_eq(&sv, &e), "saturating value");
        }
        $crate::reach!(fits, "representable");
        $crate::reach!(!fits, "overflow");
    }};
}

#[macro_export]
macro_rules! c01_u_add {
    ($name:ident, $unw:expr, $U:ty, $I:ty, $D:ty, $N:expr, $B:expr) => {
        $crate::harness!($name, $unw, {
            use $crate::util::*;
            const W: usize = $B + 2;
            let ub = |x: &$U| to_bytes::<$D, $N, $B>(x.digits());
            let da: [$D; $N] = $crate::nd::nd();
            let db: [$D; $N] = $crate::nd::nd();
            let (a, b) = (<$U>::from_digits(da), <$U>::from_digits(db));
            let (ba, bb) = (to_bytes::<$D, $N, $B>(&da), to_bytes::<$D, $N, $B>(&db));
            let (xa, xb) = (X::<W>::from_u(&ba), X::<W>::from_u(&bb));
            // a + b
            let (v, f) = a.overflowing_add(b);
            $crate::c01_check_proj!($B, xa.add(&xb), false, ov = (ub(&v), f),
                chk = a.checked_add(b).map(|r| ub(&r)), wr = ub(&a.wrapping_add(b)),
                sat = Some(ub(&a.saturating_add(b))));
            // a + b + carry: flag = carry out of the top, chains into exact multi-word addition
            let cin: bool = $crate::nd::nd();
            let (v, f) = a.carrying_add(b, cin);
            let exact = xa.add(&xb).add(&X::<W>::small(cin as i8));
            assert!(bytes_eq(&ub(&v), &exact.low::<$B>()));
            assert!(f == !exact.fits_u::<$B>());
            // a + signed b
            let sb = <$I>::from_bits(b);
            let xs = X::<W>::from_s(&bb);
            let (v, f) = a.overflowing_add_signed(sb);
            $crate::c01_check_proj!($B, xa.add(&xs), false, ov = (ub(&v), f),
                chk = a.checked_add_signed(sb).map(|r| ub(&r)), wr = ub(&a.wrapping_add_signed(sb)),
                sat = Some(ub(&a.saturating_add_signed(sb))));
        });
    };
}

#[macro_export]
macro_rules! c01_u_sub {
    ($name:ident, $unw:expr, $U:ty, $I:ty, $D:ty, $N:expr, $B:expr) => {
        $crate::harness!($name, $unw, {
            use $crate::util::*;
            const W: usize = $B + 2;
            let ub = |x: &$U| to_bytes::<$D, $N, $B>(x.digits());
            let da: [$D; $N] = $crate::nd::nd();
            let db: [$D; $N] = $crate::nd::nd();
            let (a, b) = (<$U>::from_digits(da), <$U>::from_digits(db));
            let (ba, bb) = (to_bytes::<$D, $N, $B>(&da), to_bytes::<$D, $N, $B>(&db));
            let (xa, xb) = (X::<W>::from_u(&ba), X::<W>::from_u(&bb));
            let (v, f) = a.overflowing_sub(b);
            $crate::c01_check_proj!($B, xa.sub(&xb), false, ov = (ub(&v), f),
                chk = a.checked_sub(b).map(|r| ub(&r)), wr = ub(&a.wrapping_sub(b)),
                sat = Some(ub(&a.saturating_sub(b))));
            let bin: bool = $crate::nd::nd();
            let (v, f) = a.borrowing_sub(b, bin);
            let exact = xa.sub(&xb).sub(&X::<W>::small(bin as i8));
            assert!(bytes_eq(&ub(&v), &exact.low::<$B>()));
            assert!(f == !exact.fits_u::<$B>());
            // negation
            let (v, f) = a.overflowing_neg();
            $crate::c01_check_proj!($B, xa.neg(), false, ov = (ub(&v), f),
                chk = a.checked_neg().map(|r| ub(&r)), wr = ub(&a.wrapping_neg()), sat = None);
            // |a - b|
            let ad = xa.sub(&xb).abs();
            assert!(bytes_eq(&ub(&a.abs_diff(b)), &ad.low::<$B>()));
            // midpoint rounds down, never overflows / panics
            let m = xa.add(&xb).half_floor();
            assert!(bytes_eq(&ub(&a.midpoint(b)), &m.low::<$B>()));
        });
    };
}

#[macro_export]
macro_rules! c01_i_add {
    ($name:ident, $unw:expr, $U:ty, $I:ty, $D:ty, $N:expr, $B:expr) => {
        $crate::harness!($name, $unw, {
            use $crate::util::*;
            const W: usize = $B + 2;
            let ib = |x: &$I| to_bytes::<$D, $N, $B>(x.to_bits().digits());
            let da: [$D; $N] = $crate::nd::nd();
            let db: [$D; $N] = $crate::nd::nd();
            let (ua, ubb) = (<$U>::from_digits(da), <$U>::from_digits(db));
            let (a, b) = (<$I>::from_bits(ua), <$I>::from_bits(ubb));
            let (ba, bb) = (to_bytes::<$D, $N, $B>(&da), to_bytes::<$D, $N, $B>(&db));
            let (xa, xb) = (X::<W>::from_s(&ba), X::<W>::from_s(&bb));
            let (v, f) = a.overflowing_add(b);
            $crate::c01_check_proj!($B, xa.add(&xb), true, ov = (ib(&v), f),
                chk = a.checked_add(b).map(|r| ib(&r)), wr = ib(&a.wrapping_add(b)),
                sat = Some(ib(&a.saturating_add(b))));
            let cin: bool = $crate::nd::nd();
            let (v, f) = a.carrying_add(b, cin);
            let exact = xa.add(&xb).add(&X::<W>::small(cin as i8));
            assert!(bytes_eq(&ib(&v), &exact.low::<$B>()));
            assert!(f == !exact.fits_s::<$B>());
            // a + unsigned b
            let xu = X::<W>::from_u(&bb);
            let (v, f) = a.overflowing_add_unsigned(ubb);
            $crate::c01_check_proj!($B, xa.add(&xu), true, ov = (ib(&v), f),
                chk = a.checked_add_unsigned(ubb).map(|r| ib(&r)), wr = ib(&a.wrapping_add_unsigned(ubb)),
                sat = Some(ib(&a.saturating_add_unsigned(ubb))));
        });
    };
}

#[macro_export]
macro_rules! c01_i_sub {
    ($name:ident, $unw:expr, $U:ty, $I:ty, $D:ty, $N:expr, $B:expr) => {
        $crate::harness!($name, $unw, {
            use $crate::util::*;
            const W: usize = $B + 2;
            let ib = |x: &$I| to_bytes::<$D, $N, $B>(x.to_bits().digits());
            let ub = |x: &$U| to_bytes::<$D, $N, $B>(x.digits());
            let da: [$D; $N] = $crate::nd::nd();
            let db: [$D; $N] = $crate::nd::nd();
            let (ua, ubb) = (<$U>::from_digits(da), <$U>::from_digits(db));
            let (a, b) = (<$I>::from_bits(ua), <$I>::from_bits(ubb));
            let (ba, bb) = (to_bytes::<$D, $N, $B>(&da), to_bytes::<$D, $N, $B>(&db));
            let (xa, xb) = (X::<W>::from_s(&ba), X::<W>::from_s(&bb));
            let (v, f) = a.overflowing_sub(b);
            $crate::c01_check_proj!($B, xa.sub(&xb), true, ov = (ib(&v), f),
                chk = a.checked_sub(b).map(|r| ib(&r)), wr = ib(&a.wrapping_sub(b)),
                sat = Some(ib(&a.saturating_sub(b))));
            let bin: bool = $crate::nd::nd();
            let (v, f) = a.borrowing_sub(b, bin);
            let exact = xa.sub(&xb).sub(&X::<W>::small(bin as i8));
            assert!(bytes_eq(&ib(&v), &exact.low::<$B>()));
            assert!(f == !exact.fits_s::<$B>());
            let xu = X::<W>::from_u(&bb);
            let (v, f) = a.overflowing_sub_unsigned(ubb);
            $crate::c01_check_proj!($B, xa.sub(&xu), true, ov = (ib(&v), f),
                chk = a.checked_sub_unsigned(ubb).map(|r| ib(&r)), wr = ib(&a.wrapping_sub_unsigned(ubb)),
                sat = Some(ib(&a.saturating_sub_unsigned(ubb))));
        });
    };
}

#[macro_export]
macro_rules! c01_i_neg {
    ($name:ident, $unw:expr, $U:ty, $I:ty, $D:ty, $N:expr, $B:expr) => {
        $crate::harness!($name, $unw, {
            use $crate::util::*;
            const W: usize = $B + 2;
            let ib = |x: &$I| to_bytes::<$D, $N, $B>(x.to_bits().digits());
            let ub = |x: &$U| to_bytes::<$D, $N, $B>(x.digits());
            let da: [$D; $N] = $crate::nd::nd();
            let db: [$D; $N] = $crate::nd::nd();
            let (a, b) = (<$I>::from_bits(<$U>::from_digits(da)), <$I>::from_bits(<$U>::from_digits(db)));
            let (ba, bb) = (to_bytes::<$D, $N, $B>(&da), to_bytes::<$D, $N, $B>(&db));
            let (xa, xb) = (X::<W>::from_s(&ba), X::<W>::from_s(&bb));
            let (v, f) = a.overflowing_neg();
            $crate::c01_check_proj!($B, xa.neg(), true, ov = (ib(&v), f),
                chk = a.checked_neg().map(|r| ib(&r)), wr = ib(&a.wrapping_neg()),
                sat = Some(ib(&a.saturating_neg())));
            let (v, f) = a.overflowing_abs();
            $crate::c01_check_proj!($B, xa.abs(), true, ov = (ib(&v), f),
                chk = a.checked_abs().map(|r| ib(&r)), wr = ib(&a.wrapping_abs()),
                sat = Some(ib(&a.saturating_abs())));
            // unsigned_abs / abs_diff are always representable in the unsigned type
            assert!(bytes_eq(&ub(&a.unsigned_abs()), &xa.abs().low::<$B>()));
            assert!(xa.abs().fits_u::<$B>());
            let ad = xa.sub(&xb).abs();
            assert!(ad.fits_u::<$B>());
            assert!(bytes_eq(&ub(&a.abs_diff(b)), &ad.low::<$B>()));
            // midpoint: exact (a+b)/2 rounded toward zero
            let s = xa.add(&xb);
            let fl = s.half_floor();
            let m = if s.is_neg() && s.is_odd() { fl.add(&X::<W>::small(1)) } else { fl };
            assert!(bytes_eq(&ib(&a.midpoint(b)), &m.low::<$B>()));
            $crate::reach!(s.is_neg() && s.is_odd(), "midpoint negative odd");
        });
    };
}

/// strict_* : value when representable (no panic possible) ...
#[macro_export]
macro_rules! c01_strict_ok {
    ($name:ident, $unw:expr, $U:ty, $I:ty, $D:ty, $N:expr, $B:expr) => {
        $crate::harness!($name, $unw, {
            use $crate::util::*;
            let da: [$D; $N] = $crate::nd::nd();
            let db: [$D; $N] = $crate::nd::nd();
            let (ua, ubb) = (<$U>::from_digits(da), <$U>::from_digits(db));
            let (a, b) = (<$I>::from_bits(ua), <$I>::from_bits(ubb));
            let sel: u8 = $crate::nd::nd();
            match sel {
                0 => { let (v, f) = ua.overflowing_add(ubb); $crate::nd::assume(!f); assert!(ua.strict_add(ubb) == v); }
                1 => { let (v, f) = ua.overflowing_sub(ubb); $crate::nd::assume(!f); assert!(ua.strict_sub(ubb) == v); }
                2 => { let (v, f) = ua.overflowing_neg(); $crate::nd::assume(!f); assert!(ua.strict_neg() == v); }
                3 => { let (v, f) = ua.overflowing_add_signed(b); $crate::nd::assume(!f); assert!(ua.strict_add_signed(b) == v); }
                4 => { let (v, f) = a.overflowing_add(b); $crate::nd::assume(!f); assert!(a.strict_add(b) == v); }
                5 => { let (v, f) = a.overflowing_sub(b); $crate::nd::assume(!f); assert!(a.strict_sub(b) == v); }
                6 => { let (v, f) = a.overflowing_neg(); $crate::nd::assume(!f); assert!(a.strict_neg() == v); }
                7 => { let (v, f) = a.overflowing_abs(); $crate::nd::assume(!f); assert!(a.strict_abs() == v); }
                8 => { let (v, f) = a.overflowing_add_unsigned(ubb); $crate::nd::assume(!f); assert!(a.strict_add_unsigned(ubb) == v); }
                9 => { let (v, f) = a.overflowing_sub_unsigned(ubb); $crate::nd::assume(!f); assert!(a.strict_sub_unsigned(ubb) == v); }
                10 => { let (v, f) = ua.overflowing_add(ubb); $crate::nd::assume(!f); assert!(unsafe { ua.unchecked_add(ubb) } == v); }
                11 => { let (v, f) = ua.overflowing_sub(ubb); $crate::nd::assume(!f); assert!(unsafe { ua.unchecked_sub(ubb) } == v); }
                12 => { let (v, f) = a.overflowing_add(b); $crate::nd::assume(!f); assert!(unsafe { a.unchecked_add(b) } == v); }
                _ => { $crate::nd::assume(sel == 13); let (v, f) = a.overflowing_sub(b); $crate::nd::assume(!f); assert!(unsafe { a.unchecked_sub(b) } == v); }
            }
            $crate::reach!(sel == 0, "s0"); $crate::reach!(sel == 3, "s3"); $crate::reach!(sel == 7, "s7"); $crate::reach!(sel == 9, "s9"); $crate::reach!(sel == 13, "s13");
        });
    };
}

/// ... and a panic exactly when the overflowing form reports overflow (no flagged input lets the call return)
#[macro_export]
macro_rules! c01_strict_panic {
    ($name:ident, $unw:expr, $U:ty, $I:ty, $D:ty, $N:expr, $B:expr) => {
        $crate::panic_harness!($name, $unw, {
            let da: [$D; $N] = $crate::nd::nd();
            let db: [$D; $N] = $crate::nd::nd();
            let (ua, ubb) = (<$U>::from_digits(da), <$U>::from_digits(db));
            let (a, b) = (<$I>::from_bits(ua), <$I>::from_bits(ubb));
            let sel: u8 = $crate::nd::nd();
            $crate::nd::assume(sel <= 9);
            let f = match sel {
                0 => ua.overflowing_add(ubb).1,
                1 => ua.overflowing_sub(ubb).1,
                2 => ua.overflowing_neg().1,
                3 => ua.overflowing_add_signed(b).1,
                4 => a.overflowing_add(b).1,
                5 => a.overflowing_sub(b).1,
                6 => a.overflowing_neg().1,
                7 => a.overflowing_abs().1,
                8 => a.overflowing_add_unsigned(ubb).1,
                _ => a.overflowing_sub_unsigned(ubb).1,
            };
            $crate::nd::assume(f);
            $crate::reach!(sel == 0, "p0"); $crate::reach!(sel == 2, "p2"); $crate::reach!(sel == 7, "p7"); $crate::reach!(sel == 9, "p9");
            match sel {
                0 => { let _ = ua.strict_add(ubb); }
                1 => { let _ = ua.strict_sub(ubb); }
                2 => { let _ = ua.strict_neg(); }
                3 => { let _ = ua.strict_add_signed(b); }
                4 => { let _ = a.strict_add(b); }
                5 => { let _ = a.strict_sub(b); }
                6 => { let _ = a.strict_neg(); }
                7 => { let _ = a.strict_abs(); }
                8 => { let _ = a.strict_add_unsigned(ubb); }
                _ => { let _ = a.strict_sub_unsigned(ubb); }
            }
            $crate::noreturn!("strict op returned on overflow");
        });
    };
}
