#!/usr/bin/env python3
"""Evaluate one seeded change: confirm the sub-agent's claims in a scratch worktree, then run our check against it.
usage: eval_seeded.py <prop> <label> <dir with patch.diff demo.rs notes.txt> [--features f] [--check-args ...]
Writes /verif/seeded/<prop>-<label>/{patch.diff,demo.rs,meta.json}."""
import json, os, shlex, shutil, subprocess, sys, time

prop, label, src = sys.argv[1], sys.argv[2], sys.argv[3]
feat = []
extra = []
args = sys.argv[4:]
while args:
    a = args.pop(0)
    if a == '--features':
        feat = ['--features', args.pop(0)]
    else:
        extra.append(a)
WT = f'/tmp/evalwt-{prop}-{label}'
out = f'/verif/seeded/{prop}-{label}'
os.makedirs(out, exist_ok=True)
env = dict(os.environ, CARGO_NET_OFFLINE='true')
WT_ENV = dict(env, CARGO_TARGET_DIR='/tmp/eval-target')  # shared across evaluations (removed by hand at the end of a session)


def sh(cmd, cwd=None, timeout=3600):
    p = subprocess.run(cmd, shell=True, cwd=cwd, env=WT_ENV if cwd and cwd.startswith('/tmp/evalwt') else env, stdout=subprocess.PIPE, stderr=subprocess.STDOUT, text=True, timeout=timeout)
    return p.returncode, p.stdout


meta = {'property': prop, 'label': label, 'ran': []}
sh(f'git -C /repo worktree remove --force {WT}')
rc, o = sh(f'git -C /repo worktree add --detach {WT} HEAD')
assert rc == 0, o
try:
    patch = os.path.join(src, 'patch.diff')
    f = ' '.join(feat)
    rc, o = sh(f'git apply {patch}', cwd=WT)
    assert rc == 0, o
    rc1, o1 = sh('cargo test --offline --workspace --no-fail-fast 2>&1 | grep -E "^test result|FAILED|^error" | head', cwd=WT)
    suite_ok = 'FAILED' not in o1 and 'error' not in o1 and '1945 passed' in o1
    os.makedirs(f'{WT}/tests', exist_ok=True)
    shutil.copy(os.path.join(src, 'demo.rs'), f'{WT}/tests/seeded_demo.rs')
    rc2, o2 = sh(f'cargo test --offline {f} --test seeded_demo 2>&1 | tail -15', cwd=WT)
    demo_mut_fails = 'test result: FAILED' in o2 or 'panicked' in o2
    sh('git checkout -- src', cwd=WT)
    rc0, o0 = sh(f'cargo test --offline {f} --test seeded_demo 2>&1 | tail -15', cwd=WT)
    demo_clean = 'test result: ok' in o0 and 'FAILED' not in o0
    meta.update({'compiles_and_suite_passes_with_change': suite_ok, 'suite_output': o1.strip().splitlines()[:4],
                 'demo_passes_without_change': demo_clean, 'demo_fails_with_change': demo_mut_fails})
    meta['ran'] += ['git apply patch.diff', 'cargo test --offline --workspace --no-fail-fast (changed tree, suite only)',
                    f'cargo test --offline {f} --test seeded_demo (changed tree)', 'git checkout -- src', f'cargo test --offline {f} --test seeded_demo (clean tree)']
finally:
    sh(f'git -C /repo worktree remove --force {WT}')
    shutil.rmtree(WT, ignore_errors=True)
confirmed = meta.get('compiles_and_suite_passes_with_change') and meta.get('demo_passes_without_change') and meta.get('demo_fails_with_change')
meta['confirmed'] = bool(confirmed)
print(json.dumps(meta, indent=1))
if confirmed:
    if os.environ.get('EVAL_IN_REPO') == '1':
        rc, o = sh(f'git -C /repo apply {patch}')
        assert rc == 0, o
        try:
            t0 = time.time()
            rc, o = sh(f'./check {prop} --tier quick --no-evidence ' + ' '.join(shlex.quote(x) for x in extra), cwd='/verif', timeout=7200)
            meta['check_cmd'] = f'git -C /repo apply patch.diff; ./check {prop} --tier quick ' + ' '.join(extra) + '; git -C /repo checkout -- .'
        finally:
            sh('git -C /repo checkout -- .')
    else:
        # same check, same harness sources, but the path dependency of a scratch copy of the harness crate points at a patched scratch
        # worktree, so that /repo itself stays untouched while other checks are running
        sh(f'git -C /repo worktree remove --force {WT}')
        rc, o = sh(f'git -C /repo worktree add --detach {WT} HEAD')
        assert rc == 0, o
        HD = f'/tmp/evalh-{prop}-{label}'
        try:
            rc, o = sh(f'git apply {patch}', cwd=WT)
            assert rc == 0, o
            shutil.rmtree(HD, ignore_errors=True)
            shutil.copytree('/verif/harness', HD, ignore=shutil.ignore_patterns('target'))
            ct = open(f'{HD}/Cargo.toml').read().replace('path = "/repo"', f'path = "{WT}"')
            open(f'{HD}/Cargo.toml', 'w').write(ct)
            t0 = time.time()
            envs = f'VERIF_HARNESS_DIR={HD} VERIF_WORK=/tmp/evalwork-{prop}-{label} '
            rc, o = sh(envs + f'./check {prop} --tier quick --no-evidence ' + ' '.join(shlex.quote(x) for x in extra), cwd='/verif', timeout=10800)
            meta['check_cmd'] = (f'(scratch worktree with patch.diff applied; copy of /verif/harness with its bnum path dependency pointed at it) '
                                 f'./check {prop} --tier quick ' + ' '.join(extra))
        finally:
            sh(f'git -C /repo worktree remove --force {WT}')
            shutil.rmtree(WT, ignore_errors=True)
            shutil.rmtree(HD, ignore_errors=True)
            shutil.rmtree(f'/tmp/evalwork-{prop}-{label}', ignore_errors=True)
    meta['check_exit'] = rc
    meta['check_wall_s'] = round(time.time() - t0)
    meta['check_lines'] = [l for l in o.splitlines() if l.startswith(('VIOLATION', 'KNOWN-FINDING', 'MACHINERY', prop)) or 'FAILED' in l][:12]
    meta['detected'] = rc == 1 and any(l.startswith('VIOLATION') for l in o.splitlines())
    print('\n'.join(meta['check_lines']))
shutil.copy(patch, out)
shutil.copy(os.path.join(src, 'demo.rs'), out)
if os.path.exists(os.path.join(src, 'notes.txt')):
    meta['needs'] = open(os.path.join(src, 'notes.txt')).read()[:1500]
json.dump(meta, open(os.path.join(out, 'meta.json'), 'w'), indent=1)
print('confirmed' if confirmed else 'NOT CONFIRMED', 'detected' if meta.get('detected') else 'MISSED')
