//! C06 - bitwise logic, bit counts and bit manipulation act on the exact BITS-bit pattern.
//! Oracle: bit-indexed specification with a symbolic bit position; counts by their defining property
//! (k extreme bits equal, next one differs) or as the sum of the primitive per-digit counts.

/// works for both signednesses ($T = BUint.. or BInt..)
#[macro_export]
macro_rules! c06_logic {
    ($name:ident, $unw:expr, $T:ty, $D:ty, $N:expr) => {
        $crate::harness!($name, $unw, {
            use $crate::util::*;
            const BITS: u32 = <$D>::BITS * $N;
            let (a, ad) = <$T as BN<$D, $N>>::any();
            let (b, bd) = <$T as BN<$D, $N>>::any();
            let i: u32 = $crate::nd::nd();
            $crate::nd::assume(i < BITS);
            let (x, y) = (dbit(&ad, i), dbit(&bd, i));
            assert!(dbit(&a.bitand(b).dg(), i) == (x & y) && dbit(&(a & b).dg(), i) == (x & y), "and");
            assert!(dbit(&a.bitor(b).dg(), i) == (x | y) && dbit(&(a | b).dg(), i) == (x | y), "or");
            assert!(dbit(&a.bitxor(b).dg(), i) == (x ^ y) && dbit(&(a ^ b).dg(), i) == (x ^ y), "xor");
            assert!(dbit(&a.not().dg(), i) == !x && dbit(&(!a).dg(), i) == !x, "not");
            assert!(a.bit(i) == x, "bit(i)");
            assert!(a.is_zero() == dzero(&ad), "is_zero");
            let mut one = true;
            let mut k = 0;
            while k < $N { one &= ad[k].to_u64() == (k == 0) as u64; k += 1; }
            assert!(a.is_one() == one, "is_one");
            $crate::reach!(x && !y, "bits differ");
        });
    };
}

#[macro_export]
macro_rules! c06_counts {
    ($name:ident, $unw:expr, $T:ty, $D:ty, $N:expr) => {
        $crate::harness!($name, $unw, {
            use $crate::util::*;
            const BITS: u32 = <$D>::BITS * $N;
            let (a, ad) = <$T as BN<$D, $N>>::any();
            // population count: sum of the primitive per-digit counts
            let mut pop = 0u32;
            let mut k = 0;
            while k < $N { pop += ad[k].to_u64().count_ones(); k += 1; }
            assert!(a.count_ones() == pop && a.count_zeros() == BITS - pop, "count_ones / count_zeros");
            // leading / trailing counts by their defining property, j symbolic
            let j: u32 = $crate::nd::nd();
            $crate::nd::assume(j < BITS);
            let lz = a.leading_zeros();
            assert!(lz <= BITS && (lz == BITS || dbit(&ad, BITS - 1 - lz)) && (j >= lz || !dbit(&ad, BITS - 1 - j)), "leading_zeros");
            let lo = a.leading_ones();
            assert!(lo <= BITS && (lo == BITS || !dbit(&ad, BITS - 1 - lo)) && (j >= lo || dbit(&ad, BITS - 1 - j)), "leading_ones");
            let tz = a.trailing_zeros();
            assert!(tz <= BITS && (tz == BITS || dbit(&ad, tz)) && (j >= tz || !dbit(&ad, j)), "trailing_zeros");
            let to = a.trailing_ones();
            assert!(to <= BITS && (to == BITS || !dbit(&ad, to)) && (j >= to || dbit(&ad, j)), "trailing_ones");
            // bits(): position of the highest set bit + 1 (0 for zero)
            let nb = a.bits();
            assert!(nb <= BITS && (nb == 0 || dbit(&ad, nb - 1)) && (j < nb || !dbit(&ad, j)), "bits()");
            $crate::reach!(lz > <$D>::BITS || $N == 1, "leading zeros span a digit");
            $crate::reach!(to == BITS, "all ones");
            $crate::reach!(tz == BITS, "all zeros");
        });
    };
}

/// swap_bytes / reverse_bits / is_power_of_two for either signedness
#[macro_export]
macro_rules! c06_perm {
    ($name:ident, $unw:expr, $T:ty, $D:ty, $N:expr) => {
        $crate::harness!($name, $unw, {
            use $crate::util::*;
            const BITS: u32 = <$D>::BITS * $N;
            const BYTES: usize = (BITS / 8) as usize;
            let (a, ad) = <$T as BN<$D, $N>>::any();
            let i: u32 = $crate::nd::nd();
            $crate::nd::assume(i < BITS);
            let k: usize = $crate::nd::nd();
            $crate::nd::assume(k < BYTES);
            let sb = a.swap_bytes();
            assert!(dbyte(&sb.dg(), k) == dbyte(&ad, BYTES - 1 - k), "swap_bytes reverses the byte sequence");
            assert!(deq(&sb.swap_bytes().dg(), &ad), "swap_bytes involution");
            let rb = a.reverse_bits();
            assert!(dbit(&rb.dg(), i) == dbit(&ad, BITS - 1 - i), "reverse_bits reverses the bit sequence");
            assert!(deq(&rb.reverse_bits().dg(), &ad), "reverse_bits involution");
            let mut pop = 0u32;
            let mut q = 0;
            while q < $N { pop += ad[q].to_u64().count_ones(); q += 1; }
            let neg = <$T as BN<$D, $N>>::SIGNED && dneg(&ad);
            assert!(a.is_power_of_two() == (pop == 1 && !neg), "is_power_of_two exactly for positive powers of two");
            $crate::reach!(pop == 1 && (neg || !<$T as BN<$D, $N>>::SIGNED) && dneg(&ad), "top bit only (MIN for signed: not a power of two)");
            $crate::reach!(pop == 1 && !neg, "a power of two");
        });
    };
}

/// unsigned only: set_bit, power_of_two, checked/wrapping_next_power_of_two
#[macro_export]
macro_rules! c06_u_bits {
    ($name:ident, $unw:expr, $U:ty, $D:ty, $N:expr) => {
        $crate::harness!($name, $unw, {
            use $crate::util::*;
            const BITS: u32 = <$D>::BITS * $N;
            const M: usize = $N + 1;
            let (a, ad) = <$U as BN<$D, $N>>::any();
            let i: u32 = $crate::nd::nd();
            let j: u32 = $crate::nd::nd();
            $crate::nd::assume(i < BITS && j < BITS);
            let v: bool = $crate::nd::nd();
            let mut s = a;
            s.set_bit(i, v);
            assert!(dbit(&s.dg(), j) == if j == i { v } else { dbit(&ad, j) }, "set_bit writes bit i and nothing else");
            let p = <$U>::power_of_two(i);
            assert!(dbit(&p.dg(), j) == (j == i), "power_of_two(k) == 2^k");
            // next power of two: least power of two >= a, None exactly when it does not fit
            let xa = XD::<$D, M>::from_u(&ad);
            let top = { let mut t = [<$D as Dig>::ZERO; $N]; t[$N - 1] = <$D as Dig>::from_u64(1u64 << (<$D>::BITS - 1)); XD::<$D, M>::from_u(&t) };
            let fits = xa.cmp(&top) != core::cmp::Ordering::Greater; // a <= 2^(BITS-1)
            let c = a.checked_next_power_of_two();
            assert!(c.is_some() == fits, "None exactly when the next power of two does not fit");
            let w = a.wrapping_next_power_of_two();
            match c {
                Some(p) => {
                    let pd = p.dg();
                    let mut pop = 0u32;
                    let mut q = 0;
                    while q < $N { pop += pd[q].to_u64().count_ones(); q += 1; }
                    let xp = XD::<$D, M>::from_u(&pd);
                    assert!(pop == 1, "result is a power of two");
                    assert!(xp.cmp(&xa) != core::cmp::Ordering::Less, "result >= self");
                    assert!(xp.half_floor().is_zero() || xp.half_floor().cmp(&xa) == core::cmp::Ordering::Less, "result is 1 or result / 2 < self: it is the least one");
                    assert!(deq(&w.dg(), &pd));
                }
                None => assert!(w.is_zero(), "wrapping_next_power_of_two wraps to 0"),
            }
            $crate::reach!(!fits, "does not fit");
            $crate::reach!(fits && dzero(&ad), "zero -> 1");
            $crate::reach!(j != i && v != dbit(&ad, i), "set_bit changes the bit");
        });
    };
}
