//! C11 - radix output is the canonical numeral and round-trips with parsing.
//! Oracle: postcondition (digits < radix, no leading zero, Horner value == input, [0] for zero, lowercase mapping,
//! '-' prefix for negative signed values); uniqueness of positional notation makes that the canonical numeral.
//! The radix is concrete per harness (a symbolic radix makes every Vec length symbolic: 52 GB in the probe).

#[macro_export]
macro_rules! c11_radix {
    ($name:ident, $unw:expr, $T:ty, $D:ty, $N:expr, $R:expr, $MAXD:expr, $STR:expr, $VMAX:expr, $RT:expr) => {
        $crate::harness!($name, $unw, {
            use $crate::util::*;
            const W: u32 = <$D>::BITS * $N;
            const S: bool = <$T as BN<$D, $N>>::SIGNED;
            let (x, xd) = <$T as BN<$D, $N>>::any();
            let pat = dval_u128(&xd);
            if $VMAX != 0 { $crate::nd::assume(pat <= $VMAX as u128 || (S && dval_i128(&xd) < 0 && dval_i128(&xd) >= -($VMAX as i128))); }
            // to_radix_le / to_radix_be: digits of the (two's complement) bit pattern
            let le = x.to_radix_le($R);
            let n = le.len();
            assert!(n >= 1 && n <= $MAXD, "digit count within the bound for this width");
            let mut val: u128 = 0;
            let mut k = $MAXD;
            while k > 0 {
                k -= 1;
                if k < n { assert!((le[k] as u32) < $R, "every digit is below the radix"); val = val * $R as u128 + le[k] as u128; }
            }
            assert!(val == pat, "the digits denote the value (Horner)");
            assert!(if pat == 0 { n == 1 && le[0] == 0 } else { le[n - 1] != 0 }, "no leading zero; zero is [0]");
            let be = x.to_radix_be($R);
            assert!(be.len() == n, "to_radix_be has the same digits");
            let mut k = 0;
            while k < $MAXD { if k < n { assert!(be[k] == le[n - 1 - k], "to_radix_be is the reverse of to_radix_le"); } k += 1; }
            // round trip
            if $RT {
                match <$T>::from_radix_le(&le, $R) { Some(y) => assert!(deq(&y.dg(), &xd), "from_radix_le(to_radix_le(x)) == x"), None => assert!(false, "round trip rejected") }
                match <$T>::from_radix_be(&be, $R) { Some(y) => assert!(deq(&y.dg(), &xd), "from_radix_be(to_radix_be(x)) == x"), None => assert!(false, "round trip rejected") }
            }
            if $STR {
                let neg = S && dneg(&xd);
                // non-negative values only here: the negative branch goes through format! (see c11_str_neg)
                if !neg {
                    let s = x.to_str_radix($R);
                    let sb = s.as_bytes();
                    assert!(sb.len() == n, "same digit count as to_radix_be");
                    let mut k = 0;
                    while k < $MAXD {
                        if k < n { let d = be[k]; assert!(sb[k] == if d < 10 { b'0' + d } else { b'a' + d - 10 }, "lowercase digit characters"); }
                        k += 1;
                    }
                    if $RT { match <$T>::from_str_radix(&s, $R) { Ok(y) => assert!(deq(&y.dg(), &xd), "parse(to_str_radix(x)) == x"), Err(_) => assert!(false, "round trip rejected") } }
                    core::mem::forget(s);
                }
            }
            core::mem::forget(le); core::mem::forget(be);
            $crate::reach!(n == $MAXD || $VMAX != 0, "maximal digit count");
            $crate::reach!(pat == 0, "zero");
        });
    };
}

/// negative signed values: '-' followed by the numeral of the magnitude
#[macro_export]
macro_rules! c11_str_neg {
    ($name:ident, $unw:expr, $I:ty, $D:ty, $N:expr, $R:expr, $MAXD:expr) => {
        $crate::harness!($name, $unw, {
            use $crate::util::*;
            let (x, xd) = <$I as BN<$D, $N>>::any();
            $crate::nd::assume(dneg(&xd));
            let mag = (-(dval_i128(&xd))) as u128;
            let s = x.to_str_radix($R);
            let sb = s.as_bytes();
            let n = sb.len();
            assert!(n >= 2 && n <= $MAXD + 1 && sb[0] == b'-', "leading '-'");
            let mut val: u128 = 0;
            let mut k = 1;
            while k < $MAXD + 1 {
                if k < n {
                    let c = sb[k];
                    let d = if c >= b'0' && c <= b'9' { c - b'0' } else { assert!(c >= b'a' && c <= b'z', "lowercase"); c - b'a' + 10 };
                    assert!((d as u32) < $R);
                    val = val * $R as u128 + d as u128;
                }
                k += 1;
            }
            assert!(val == mag && sb[1] != b'0', "canonical numeral of the magnitude");
            match <$I>::from_str_radix(&s, $R) { Ok(y) => assert!(deq(&y.dg(), &xd), "parse(to_str_radix(x)) == x"), Err(_) => assert!(false, "round trip rejected") }
            core::mem::forget(s);
            $crate::reach!(is_min_s(&xd), "MIN");
        });
    };
}

/// out-of-range radix panics
#[macro_export]
macro_rules! c11_radix_panic {
    ($name:ident, $unw:expr, $U:ty, $I:ty) => {
        $crate::panic_harness!($name, $unw, {
            let sel: u8 = $crate::nd::nd();
            let which: u8 = $crate::nd::nd();
            $crate::nd::assume(sel < 6 && which < 4);
            let (u, s) = (<$U>::ONE, <$I>::NEG_ONE);
            macro_rules! each { ($hi:expr, $f:expr) => { match which { 0 => { let _ = $f(0u32); } 1 => { let _ = $f(1u32); } 2 => { let _ = $f($hi); } _ => { let _ = $f(u32::MAX); } } }; }
            $crate::reach!(sel == 0 && which == 2, "radix 257"); $crate::reach!(sel == 5 && which == 2, "radix 37");
            match sel {
                0 => each!(257u32, |r| u.to_radix_le(r).len()),
                1 => each!(257u32, |r| u.to_radix_be(r).len()),
                2 => each!(257u32, |r| s.to_radix_le(r).len()),
                3 => each!(257u32, |r| s.to_radix_be(r).len()),
                4 => each!(37u32, |r| u.to_str_radix(r).len()),
                _ => each!(37u32, |r| s.to_str_radix(r).len()),
            }
            $crate::noreturn!("out-of-range radix accepted");
        });
    };
}

/// Wide values (above 128 bits) in power-of-two radices: the top digit is CONCRETE, so the bit length, the output length and every
/// Vec capacity are constants for the solver and only the digit VALUES are symbolic - the allocation-heavy code that limits the
/// fully symbolic harnesses to 16 bits becomes a linear problem.  Oracle: bit slicing at a symbolic output position.
#[macro_export]
macro_rules! c11_wide {
    ($name:ident, $unw:expr, $T:ty, $D:ty, $N:expr, $R:expr, $LG:expr, $top:expr) => {
        $crate::harness!($name, $unw, {
            use $crate::util::*;
            const DB: usize = <$D>::BITS as usize;
            let mut xd: [$D; $N] = $crate::nd::nd();
            let top: $D = $top;
            xd[$N - 1] = top;
            let x = <$T as BN<$D, $N>>::mk(xd);
            let bits: usize = ($N - 1) * DB + (DB - top.leading_zeros() as usize);
            let n: usize = (bits + $LG - 1) / $LG;
            let le = x.to_radix_le($R);
            assert!(le.len() == n, "digit count = ceil(bit length / log2(radix))");
            let j: usize = $crate::nd::nd();
            $crate::nd::assume(j < n);
            let mut v: u8 = 0;
            let mut t = 0;
            while t < $LG { let p = j * $LG + t; if p < $N * DB && dbit(&xd, p as u32) { v |= 1 << t; } t += 1; }
            assert!(le[j] == v, "digit j is the j-th group of log2(radix) bits");
            let be = x.to_radix_be($R);
            assert!(be.len() == n && be[n - 1 - j] == v, "to_radix_be is the reverse");
            core::mem::forget(le); core::mem::forget(be);
            $crate::reach!(j == n - 1, "most significant digit");
            $crate::reach!(j == 0, "least significant digit");
        });
    };
}

/// Wide values in general radices (repeated division by radix^power): concrete most significant digit, all lower digits symbolic.
/// Oracle: every digit < radix, most significant digit non-zero, Horner evaluation in exact limb arithmetic equals the value
/// (uniqueness of positional notation makes that the canonical numeral).  u64-limb view of the digit array.
#[macro_export]
macro_rules! c11_wide_gen {
    ($name:ident, $unw:expr, $T:ty, $D:ty, $N:expr, $R:expr, $MAXD:expr, $L64:expr, $top:expr) => {
        $crate::harness!($name, $unw, {
            use $crate::util::*;
            const DB: usize = <$D>::BITS as usize;
            let mut xd: [$D; $N] = $crate::nd::nd();
            let top: $D = $top;
            xd[$N - 1] = top;
            let x = <$T as BN<$D, $N>>::mk(xd);
            let le = x.to_radix_le($R);
            let n = le.len();
            assert!(n >= 1 && n <= $MAXD, "digit count within the bound for this width");
            // Horner, most significant digit first, in $L64 + 1 u64 limbs
            let mut acc = [0u64; $L64 + 1];
            let mut k = $MAXD;
            while k > 0 {
                k -= 1;
                if k < n {
                    assert!((le[k] as u32) < $R, "every digit is below the radix");
                    let mut carry: u128 = le[k] as u128;
                    let mut t = 0;
                    while t < $L64 + 1 { let v = (acc[t] as u128) * ($R as u128) + carry; acc[t] = v as u64; carry = v >> 64; t += 1; }
                    assert!(carry == 0, "the numeral does not exceed the width");
                }
            }
            // compare with the value
            let mut t = 0;
            while t < $L64 + 1 {
                let mut limb: u64 = 0;
                let mut b = 0;
                while b < 64 / DB { let idx = t * (64 / DB) + b; if idx < $N { limb |= (xd[idx] as u64) << (b * DB); } b += 1; }
                assert!(acc[t] == limb, "the digits denote the value (Horner)");
                t += 1;
            }
            assert!(le[n - 1] != 0, "no leading zero");
            let be = x.to_radix_be($R);
            let j: usize = $crate::nd::nd();
            $crate::nd::assume(j < n);
            assert!(be.len() == n && be[n - 1 - j] == le[j], "to_radix_be is the reverse");
            core::mem::forget(le); core::mem::forget(be);
            $crate::reach!(n == $MAXD, "maximal digit count");
        });
    };
}
