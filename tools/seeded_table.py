#!/usr/bin/env python3
"""Render the seeded-changes table (DESIGN.md section 10.5) from /verif/seeded/*/meta.json."""
import glob, json, os, re
rows = []
for d in sorted(glob.glob('/verif/seeded/*/meta.json')):
    m = json.load(open(d))
    key = os.path.basename(os.path.dirname(d))
    notes = m.get('needs', '')
    first = ''
    for l in (m.get('check_lines') or []):
        mm = re.search(r'\] (\S+) \((dbg|rel)\) FAILED', l)
        if mm and '_kf_' not in mm.group(1):
            first = mm.group(1)
            break
    what = ''
    nt = [x.strip() for x in notes.splitlines() if x.strip()]
    what = nt[0][:150] if nt else ''
    rows.append((key, m.get('property'), 'yes' if m.get('confirmed') else 'NO', 'caught' if m.get('detected') else 'missed', first, what))
print('| change | check run | confirmed (compiles, suite passes, demo fails/passes) | result | first failing harness | what it is (from the sub-agent notes) |')
print('|---|---|---|---|---|---|')
for r in rows:
    print('| ' + ' | '.join(str(x).replace('|', '/') for x in r) + ' |')
