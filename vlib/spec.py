"""Instantiation matrix and harness registry (single source of truth).

Every harness is one (macro, instantiation, bound) triple; `gen.py` renders the Rust instantiation lines
into /verif/harness/src/gen/<prop>.rs and the driver schedules the same list.
"""
from dataclasses import dataclass, field

DIG = {'u8': (8, 'D8', 'BUintD8', 'BIntD8'), 'u16': (16, 'D16', 'BUintD16', 'BIntD16'),
       'u32': (32, 'D32', 'BUintD32', 'BIntD32'), 'u64': (64, 'D64', 'BUint', 'BInt')}


@dataclass(frozen=True)
class Inst:
    digit: str
    n: int

    @property
    def dbits(self): return DIG[self.digit][0]
    @property
    def bits(self): return self.dbits * self.n
    @property
    def bytes(self): return self.bits // 8
    @property
    def tag(self): return f"{DIG[self.digit][1].lower()}x{self.n}"
    @property
    def U(self): return f"bnum::{DIG[self.digit][2]}<{self.n}>"
    @property
    def I(self): return f"bnum::{DIG[self.digit][3]}<{self.n}>"
    @property
    def label(self): return f"{DIG[self.digit][1]}x{self.n} ({self.bits} bits)"
    def std(self):
        """the standard macro argument tail: U, I, D, N, B"""
        return f"{self.U}, {self.I}, {self.digit}, {self.n}, {self.bytes}"


def I(d, n):
    return Inst({8: 'u8', 16: 'u16', 32: 'u32', 64: 'u64'}[d], n)


# LIN family (DESIGN section 3)
LIN_Q = [I(8, 1), I(8, 2), I(8, 3), I(16, 2), I(32, 2), I(64, 1), I(64, 2), I(64, 3)]
LIN_T = [I(8, 4), I(8, 5), I(8, 8), I(8, 17), I(16, 1), I(16, 3), I(16, 5), I(32, 1), I(32, 3), I(32, 5),
         I(64, 4), I(64, 5)]


@dataclass
class H:
    prop: str
    name: str
    macro: str
    args: str                 # macro arguments after the harness name
    tier: str = 'quick'       # 'quick' (both tiers) or 'thorough'
    mode: str = 'dbg'         # 'dbg' = debug assertions + overflow checks on, 'rel' = both off
    cap: int = 300            # seconds
    core: bool = True         # undecided core harness => machinery failure (exit 2)
    kind: str = 'normal'      # 'normal' | 'panic' (must-panic harness) | 'kf' (expected-to-fail known finding twin)
    stub: bool = False        # needs -Z stubbing
    mem_gb: int = 10
    inst: str = ''
    bound: str = ''           # human-readable bound of this harness
    funcs: str = ''           # API group encoded
    seeded: bool = False      # member of a VERIF_SEED-selected family in the quick tier
    crate: str = 'harness'


REG = []


def add(h):
    assert not any(x.name == h.name and x.mode == h.mode for x in REG), h.name
    REG.append(h)
    return h


def std(prop, macro, insts_q, insts_t, unwind=lambda i: i.bytes + 4, group='', bound='all operand values', **kw):
    """register `macro` for each instantiation with the standard argument tail"""
    for tier, insts in (('quick', insts_q), ('thorough', insts_t)):
        for i in insts:
            kw2 = dict(kw)
            if tier == 'thorough':
                kw2.setdefault('cap', 1500)
            add(H(prop, f"{macro}_{i.tag}", macro, f"{unwind(i)}, {i.std()}", tier=tier, inst=i.label,
                  bound=f"{bound}; unwind {unwind(i)}", funcs=group, **kw2))


# ---------------------------------------------------------------- C01
for m, g in [('c01_u_add', 'BUint overflowing/checked/wrapping/saturating_add, carrying_add, *_add_signed'),
             ('c01_u_sub', 'BUint overflowing/checked/wrapping/saturating_sub, borrowing_sub, *_neg, abs_diff, midpoint'),
             ('c01_i_add', 'BInt overflowing/checked/wrapping/saturating_add, carrying_add, *_add_unsigned'),
             ('c01_i_sub', 'BInt overflowing/checked/wrapping/saturating_sub, borrowing_sub, *_sub_unsigned'),
             ('c01_i_neg', 'BInt *_neg, *_abs, unsigned_abs, abs_diff, midpoint')]:
    std('C01', m, LIN_Q, LIN_T, group=g)
std('C01', 'c01_strict_ok', LIN_Q, LIN_T, group='strict_add/sub/neg/abs/add_signed/add_unsigned/sub_unsigned and unchecked_add/sub return the value when representable')
std('C01', 'c01_strict_panic', LIN_Q, LIN_T, group='strict_* panic on every overflowing input', kind='panic')


# ---------------------------------------------------------------- C05
U2 = lambda i: i.n + 2
for sg in ('u', 'i'):
    for dr in ('shl', 'shr'):
        for tier, insts in (('quick', LIN_Q), ('thorough', LIN_T)):
            for i in insts:
                T = i.U if sg == 'u' else i.I
                add(H('C05', f"c05_{sg}_{dr}_{i.tag}", 'c05_shift', f"{i.n + 2}, {T}, {i.digit}, {i.n}, {dr}", tier=tier, inst=i.label,
                      funcs=f"{'BUint' if sg == 'u' else 'BInt'} overflowing/checked/wrapping/unbounded/strict/unchecked_{dr}",
                      bound=f'all values, shift amount over all of u32, symbolic bit index; unwind {i.n + 2}', cap=600))
std('C05', 'c05_strict_panic', LIN_Q, LIN_T, unwind=U2, group='strict_shl/strict_shr panic for amount >= BITS', kind='panic',
    bound='all values, all amounts >= BITS')
for dr in ('left', 'right'):
    for tier, insts in (('quick', LIN_Q), ('thorough', LIN_T)):
        for i in insts:
            add(H('C05', f"c05_rot{dr[0]}_{i.tag}", 'c05_rot', f"{i.n + 2}, {i.U}, {i.I}, {i.digit}, {i.n}, {dr}", tier=tier, inst=i.label,
                  funcs=f"rotate_{dr} (BUint, BInt) + inverse law", cap=600,
                  bound=f'all values, rotation amount over all of u32, symbolic bit index; unwind {i.n + 2}'))


def both(prop, macro, insts_q, insts_t, unwind=lambda i: i.n + 2, signs=('u', 'i'), group='', bound='all operand values', **kw):
    """register a BN-generic macro (args: unwind, T, D, N) for unsigned and/or signed types"""
    for sg in signs:
        for tier, insts in (('quick', insts_q), ('thorough', insts_t)):
            for i in insts:
                T = i.U if sg == 'u' else i.I if sg == 'i' else f"{i.U}, {i.I}"
                nm = f"{macro}_{sg}_{i.tag}" if sg != 'x' else f"{macro}_{i.tag}"
                kw2 = dict(kw)
                if tier == 'thorough':
                    kw2['cap'] = max(kw2.get('cap', 300), 1500)
                add(H(prop, nm, macro, f"{unwind(i)}, {T}, {i.digit}, {i.n}", tier=tier, inst=i.label,
                      funcs={'u': 'BUint ', 'i': 'BInt ', 'x': 'BUint+BInt '}[sg] + group, bound=f"{bound}; unwind {unwind(i)}", **kw2))


# ---------------------------------------------------------------- C06
both('C06', 'c06_logic', LIN_Q, LIN_T, group='bitand/bitor/bitxor/not (+ operators), bit, is_zero, is_one', bound='all value pairs, symbolic bit index')
both('C06', 'c06_counts', LIN_Q, LIN_T, group='count_ones/zeros, leading/trailing_zeros/ones, bits', bound='all values, symbolic bit index')
both('C06', 'c06_perm', LIN_Q, LIN_T, group='swap_bytes, reverse_bits, is_power_of_two', bound='all values, symbolic bit / byte index')
both('C06', 'c06_u_bits', LIN_Q, LIN_T, signs=('u',), group='set_bit, power_of_two, checked/wrapping_next_power_of_two',
     bound='all values, all bit indices < BITS')

# ---------------------------------------------------------------- C07
both('C07', 'c07_cmp', LIN_Q, LIN_T, unwind=lambda i: i.bytes + 2, group='cmp/eq/ne/lt/le/gt/ge/min/max/clamp (inherent, Ord/PartialOrd/PartialEq, operators)',
     bound='all triples of values')
both('C07', 'c07_clamp_panic', LIN_Q, LIN_T, group='clamp panics when min > max', kind='panic', bound='all triples with min > max')
both('C07', 'c07_sign', LIN_Q, LIN_T, signs=('i',), group='signum, is_positive, is_negative')
HASH_Q = [I(8, 1), I(8, 3), I(16, 2), I(32, 2), I(64, 1), I(64, 2)]
HASH_T = [I(8, 5), I(16, 3), I(32, 3), I(64, 3), I(64, 5)]
both('C07', 'c07_hash', HASH_Q, HASH_T, unwind=lambda i: max(i.bytes, 8) + 2, group='derived Hash vs equality',
     bound='all pairs of values; recording hasher')


# ---------------------------------------------------------------- C09
CAST_T = [I(8, 1), I(8, 3), I(8, 5), I(8, 9), I(16, 1), I(16, 3), I(16, 5), I(32, 1), I(32, 3), I(64, 1), I(64, 2), I(64, 3)]
CAST_Q = [I(8, 1), I(8, 3), I(8, 9), I(16, 1), I(16, 3), I(32, 1), I(64, 1), I(64, 2)]


def _cast_targets(insts):
    return ", ".join(f"({t}, {i.digit}, {i.n})" for i in insts for t in (i.U, i.I))


for tier, srcs, tg in (('quick', CAST_Q, CAST_Q), ('thorough', CAST_T, CAST_T)):
    for i in srcs:
        for sg, T in (('u', i.U), ('i', i.I)):
            nm = f"c09_from_{sg}_{i.tag}" + ('' if tier == 'quick' else '_all')
            add(H('C09', nm, 'c09_from', f"26, {T}, {i.digit}, {i.n}; {_cast_targets(tg)}", tier=tier, inst=i.label, seeded=(tier == 'thorough'),
                  funcs=f"As/CastFrom from {'BUint' if sg == 'u' else 'BInt'} {i.label} to {2 * len(tg)} bnum types (all digit types, wider/narrower/equal, both signs)",
                  bound='all source values, symbolic target bit index; unwind 26', cap=600))
both('C09', 'c09_prim', CAST_Q + [I(64, 3)], [i for i in CAST_T if i not in CAST_Q + [I(64, 3)]] + [I(8, 17), I(64, 5)], signs=('x',), unwind=lambda i: max(i.n, 16) + 2,
     group='<-> all 12 primitive integers, bool, char; cast_signed/cast_unsigned/to_bits/from_bits', bound='all source values, symbolic bit index')


# ---------------------------------------------------------------- C13
for tier, srcs, tg in (('quick', CAST_Q, CAST_Q), ('thorough', CAST_T, CAST_T)):
    for i in srcs:
        for sg, T in (('u', i.U), ('i', i.I)):
            nm = f"c13_btry_{sg}_{i.tag}" + ('' if tier == 'quick' else '_all')
            add(H('C13', nm, 'c13_btry', f"26, {T}, {i.digit}, {i.n}; {_cast_targets(tg)}", tier=tier, inst=i.label, seeded=(tier == 'thorough'),
                  funcs=f"BTryFrom from {'BUint' if sg == 'u' else 'BInt'} {i.label} into {2 * len(tg)} bnum types",
                  bound='all source values, symbolic target bit index; unwind 26', cap=600))
both('C13', 'c13_prim', CAST_Q, [i for i in CAST_T if i not in CAST_Q] + [I(8, 17), I(64, 5)], signs=('x',), unwind=lambda i: max(i.n, 16) + 2,
     group='TryFrom into 12 primitives; From/TryFrom from primitives (targets >= source width), bool, char; from_digit(s)/digits/From<[D;N]>',
     bound='all source values, symbolic bit index')
for i, P in ((I(8, 1), 'u8'), (I(16, 1), 'u16'), (I(32, 1), 'u32'), (I(64, 1), 'u64'), (I(64, 2), 'u128'), (I(8, 4), 'u32')):
    add(H('C13', f"c13_kf_from_unsigned_eqwidth_{i.tag}", 'c13_kf_from_unsigned_eqwidth', f"{i.n + 2}, {i.I}, {i.digit}, {i.n}, {P}", kind='kf',
          tier='quick' if i.tag in ('d8x1', 'd64x1') else 'thorough', inst=i.label, funcs=f'From<{P}> for BInt of equal width', bound=f'all {P} values', core=False))


# ---------------------------------------------------------------- C15
SL_Q = [I(8, 1), I(8, 3), I(16, 2), I(32, 1), I(64, 1)]
SL_T = [I(8, 2), I(16, 1), I(16, 3), I(32, 2), I(64, 2), I(32, 3)]
for tier, insts in (('quick', SL_Q), ('thorough', SL_T)):
    for i in insts:
        L = 2 * i.bytes + 2
        for sg, T in (('u', i.U), ('i', i.I)):
            for e in ('be', 'le'):
                add(H('C15', f"c15_{e}_slice_{sg}_{i.tag}", 'c15_slice', f"{L + 2}, {T}, {i.digit}, {i.n}, {L}, {e}", tier=tier, inst=i.label,
                      funcs=f"{'BUint' if sg == 'u' else 'BInt'}::from_{e}_slice", cap=900,
                      bound=f'all byte buffers, slice length 0..={L} (2*BYTES+2); unwind {L + 2}'))
for tier, insts in (('quick', [I(8, 1), I(8, 3), I(16, 2), I(32, 1), I(64, 1), I(64, 2)]), ('thorough', [I(8, 5), I(16, 3), I(32, 3), I(64, 3), I(64, 5)])):
    for i in insts:
        for sg, T in (('u', i.U), ('i', i.I)):
            add(H('C15', f"c15n_bytes_{sg}_{i.tag}", 'c15n_bytes', f"{i.bytes + 3}, {T}, {i.digit}, {i.n}, {i.bytes}", tier=tier, inst=i.label, crate='harness_nightly', cap=900,
                  funcs=f"{'BUint' if sg == 'u' else 'BInt'} to_be/le/ne_bytes, from_be/le/ne_bytes (bnum feature `nightly`)", bound='all values / all byte arrays, symbolic byte index'))
for i, lens, tier in ((I(64, 5), (39, 40, 41, 47), 'quick'), (I(32, 5), (18, 23), 'quick'), (I(64, 3), (24, 25, 30), 'thorough'), (I(16, 9), (17, 19, 36), 'thorough'), (I(8, 17), (16, 18, 34), 'thorough'),
                      (I(64, 17), (136, 137, 130), 'thorough')):
    for L in lens:
        for sg, T in (('u', i.U), ('i', i.I)):
            for e in ('be', 'le'):
                add(H('C15', f"c15_{e}_slicefix_{sg}_{i.tag}_l{L}", 'c15_slice', f"{max(L, i.n) + 3}, {T}, {i.digit}, {i.n}, {L}, {e}, {L}", tier=tier, inst=i.label, cap=1800, core=False,
                      funcs=f"{'BUint' if sg == 'u' else 'BInt'}::from_{e}_slice, widths above 128 bits", bound=f'all byte buffers of length exactly {L} ({i.bytes} value bytes); symbolic value byte index'))
both('C15', 'c15_endian', LIN_Q, LIN_T, group='to_be/from_be/to_le/from_le', bound='all values, symbolic byte index')


# ---------------------------------------------------------------- C14
FL_Q = [I(8, 1), I(8, 3), I(16, 2), I(32, 2), I(64, 1), I(64, 2)]
FL_T = [I(8, 2), I(8, 5), I(8, 8), I(16, 1), I(16, 3), I(16, 5), I(32, 1), I(32, 3), I(64, 3)]
both('C14', 'c14_from_float', FL_Q + [I(64, 3)], [i for i in FL_T if i.tag != 'd64x3'] + [I(8, 17), I(32, 5), I(64, 5)],
     group='CastFrom<f32/f64>', bound='all 2^32 f32 and 2^64 f64 bit patterns, symbolic bit index', cap=600)
both('C14', 'c14_to_float', FL_Q, [i for i in FL_T if i.bits <= 128], group='as f32 / as f64 (width <= 128: vs primitive as)', bound='all values', cap=600)
for i, tier in ((I(64, 3), 'quick'), (I(64, 5), 'thorough'), (I(64, 17), 'thorough')):
    add(H('C14', f"c14_to_float_wide_{i.tag}", 'c14_to_float_wide', f"{i.n + 2}, {i.U}, {i.I}, {i.n}", tier=tier, inst=i.label, cap=900,
          funcs='BUint/BInt as f32 / as f64, widths above 128 bits (round-to-nearest-even spec, infinity boundary)',
          bound=f'all values with more than 64 significant bits; unwind {i.n + 2}'))


# ---------------------------------------------------------------- C19
NT_Q = [I(8, 1), I(8, 3), I(16, 1), I(32, 2), I(64, 1), I(64, 2)]
NT_T = [I(8, 2), I(16, 3), I(32, 1), I(64, 3), I(8, 17)]
both('C19', 'c19_from_prim', NT_Q, NT_T, unwind=lambda i: max(i.n, 16) + 2, group='FromPrimitive::from_{u8..u128,i8..i128,usize,isize}',
     bound='all source values, symbolic bit index', cap=600)
both('C19', 'c19_from_float', NT_Q, NT_T, unwind=lambda i: i.bytes + 2, group='FromPrimitive::from_f32/from_f64',
     bound='all 2^32 f32 and 2^64 f64 bit patterns, symbolic bit index', cap=600)
both('C19', 'c19_to_prim', NT_Q, NT_T, unwind=lambda i: max(i.n, 16) + 2, group='ToPrimitive::to_*, AsPrimitive::as_',
     bound='all values, symbolic bit index', cap=600)


# ---------------------------------------------------------------- C02
DD = {'u8': 'u16', 'u16': 'u32', 'u32': 'u64', 'u64': 'u128'}
for i, tier, cap in ((I(8, 1), 'quick', 300), (I(8, 2), 'quick', 900), (I(16, 1), 'thorough', 1800)):
    for part in ('ov', 'wide', 'proj'):
        add(H('C02', f"c02_x_u_{part}_{i.tag}", 'c02_x_u', f"{i.n + 2}, {i.U}, {i.digit}, {i.n}, {part}", tier=tier if (part == 'ov' or i.bits == 8) else 'thorough',
              cap=cap if (part == 'ov' or i.bits == 8) else 5400, core=(part == 'ov' or i.bits == 8), inst=i.label,
              funcs={'ov': 'BUint overflowing_mul', 'wide': 'BUint widening_mul, carrying_mul', 'proj': 'BUint checked/wrapping/saturating/strict/unchecked_mul vs overflowing_mul'}[part],
              bound=f'all operand pairs (exact multiplier, {i.bits} bits); unwind {i.n + 2}'))
    for part in ('ov', 'proj'):
        add(H('C02', f"c02_x_i_{part}_{i.tag}", 'c02_x_i', f"{i.n + 2}, {i.I}, {i.digit}, {i.n}, {part}", tier=tier if (part == 'ov' or i.bits == 8) else 'thorough',
              cap=cap if (part == 'ov' or i.bits == 8) else 5400, core=(part == 'ov' or i.bits == 8), inst=i.label,
              funcs={'ov': 'BInt overflowing_mul, saturating_mul', 'proj': 'BInt checked/wrapping/strict/unchecked_mul vs overflowing_mul'}[part],
              bound=f'all operand pairs (exact multiplier, {i.bits} bits); unwind {i.n + 2}'))
    add(H('C02', f"c02_strict_panic_{i.tag}", 'c02_strict_panic', f"{i.n + 2}, {i.U}, {i.I}, {i.digit}, {i.n}", tier=tier, cap=cap, inst=i.label, kind='panic',
          funcs='strict_mul panics on overflow (BUint, BInt)', bound='all overflowing operand pairs'))
UF_Q = [I(8, 3), I(64, 2)]
UF_T = [I(8, 2), I(8, 4), I(16, 2), I(16, 3), I(32, 2), I(32, 3), I(64, 3), I(64, 4)]
for tier, insts in (('quick', UF_Q), ('thorough', UF_T)):
    for i in insts:
        for sg, T in (('u', i.U), ('i', i.I)):
            add(H('C02', f"c02_{sg}_uf_{i.tag}", f'c02_{sg}_uf',
                  f"{max(2 * i.n + 1, i.n * i.n) + 2}, {T}, {i.digit}, {i.n}, {2 * i.n}, {i.digit}, uf_carrying_mul_{i.digit}, uf_widening_mul_{i.digit}",
                  tier=tier, cap=1200, inst=i.label, stub=True,
                  funcs=('BUint overflowing_mul, widening_mul' if sg == 'u' else 'BInt overflowing/checked/saturating_mul') + ' with the digit product as an uninterpreted function',
                  bound='all operand pairs, all interpretations of the digit product satisfying P<=(B-1)^2, P=0 iff a factor is 0, functional consistency + commutativity'))
for i, tier in ((I(16, 2), 'quick'), (I(32, 2), 'quick'), (I(8, 3), 'thorough'), (I(8, 4), 'thorough'), (I(16, 3), 'thorough'), (I(64, 1), 'thorough')):
    add(H('C02', f"c02_alpha_{i.tag}", 'c02_alpha', f"{i.n + 2}, {i.U}, {i.I}, {i.digit}, {i.n}", tier=tier, cap=1200, inst=i.label,
          funcs='overflowing/widening/carrying_mul (BUint), overflowing/saturating_mul (BInt), exact arithmetic',
          bound='every digit over the boundary alphabet {0,1,2,B/2-1,B/2,B/2+1,B-2,B-1}; exact u128 oracle'))
C02_CMUL = [
    # sparse constants finish in seconds; dense ones (MAX, -3, mixed) are a genuine multiplier equivalence and did not finish in 540 s: thorough tier
    (I(64, 2), 'max', [0xffffffffffffffff, 0xffffffffffffffff], 'thorough'), (I(64, 2), 'min', [0, 0x8000000000000000], 'quick'), (I(64, 2), 'p2p1', [1, 1], 'quick'), (I(64, 2), 'three', [3, 0], 'quick'),
    (I(64, 3), 'mix', [0xfffffffffffffffe, 1, 0x7fffffffffffffff], 'thorough'), (I(64, 3), 'neg3', [0xfffffffffffffffd, 0xffffffffffffffff, 0xffffffffffffffff], 'thorough'), (I(32, 4), 'alt', [0xffffffff, 0, 0xffffffff, 0], 'thorough'),
    (I(64, 3), 'p2s', [0, 1, 0x8000000000000000], 'thorough'), (I(16, 4), 'c64', [0xfffe, 0x0001, 0x8000, 0x7fff], 'thorough'), (I(8, 8), 'c64', [0xff, 0, 0x80, 0x7f, 1, 0xfe, 0, 0x80], 'thorough'), (I(64, 1), 'max', [0xffffffffffffffff], 'thorough'), (I(64, 1), 'min', [0x8000000000000000], 'quick'),
    (I(64, 2), 'smax', [0xffffffffffffffff, 0x7fffffffffffffff], 'thorough'), (I(64, 5), '2p130p1', [1, 0, 4, 0, 0], 'thorough'), (I(64, 4), 'm2p64', [0, 0xffffffffffffffff, 0xffffffffffffffff, 0xffffffffffffffff], 'thorough'), (I(32, 2), 'neg1', [0xffffffff, 0xffffffff], 'thorough'),
]
for i, tag, bv, tier in C02_CMUL:
    L = i.bits // 64
    add(H('C02', f"c02_cmul_{i.tag}_{tag}", 'c02_cmul', f"{max(2 * L, i.n) + 3}, {i.U}, {i.I}, {i.digit}, {i.n}, {L}, {2 * L}, [{', '.join(hex(v) for v in bv)}]", tier=tier, cap=1800, inst=i.label, core=False, mem_gb=10,
          funcs='overflowing/checked/wrapping/saturating/widening/carrying_mul (BUint), overflowing/saturating_mul (BInt): exact multiplier with one concrete operand',
          bound=f'all values of the other operand and of the carry word; concrete operand {tag}; exact limb oracle, symbolic limb index'))
for i in (I(8, 1), I(16, 1), I(32, 1), I(64, 1)):
    add(H('C02', f"c02_kernel_{i.tag}", 'c02_kernel', f"3, {i.U}, {i.digit}, {DD[i.digit]}", inst=i.label, cap=900,
          funcs='digit product kernel through N=1 widening_mul / carrying_mul / overflowing_mul', bound='all digit triples; double-width primitive product as oracle'))


for d in ('u8', 'u16', 'u32', 'u64'):
    add(H('C02', f"c02_kernel_hook_{d}", 'c02_kernel_hook', f"3, {d}, {d}, {DD[d]}", inst=f'digit {d}', cap=900,
          funcs=f'digit::{d}::carrying_mul / widening_mul (private kernels, via the verif_hooks feature)', bound='all four digit arguments'))

# ---------------------------------------------------------------- C03
def _x(i, signed):
    t = 'i' if signed else 'u'
    return t + ('32' if i.bits <= 16 else '64' if i.bits <= 32 else '128')


def c03_set(i, gen, tier, cap, path='all', signed=True, unsigned=True, tagx=''):
    g = '' if gen == 'any' else '_alpha'
    pth = '' if path == 'all' else '_' + path
    bnd = ('all operand pairs' if gen == 'any' else 'every digit over the boundary alphabet {0,1,2,B/2-1,B/2,B/2+1,B-2,B-1}') + \
          ({'all': '', 'small': ' with a one-digit divisor or dividend <= divisor', 'knuth': ' with a multi-digit divisor below the dividend (Knuth D)'}[path])
    PARTS = (('a', 'true, false, false', 'const div/rem, checked_div/rem(+euclid), div_euclid/rem_euclid'),
             ('b', 'false, true, false', 'wrapping_ and overflowing_ div/rem(+euclid)' ),
             ('c', 'false, false, true', 'saturating_div, strict_div/rem(+euclid), div_floor, div_ceil, next_multiple_of, checked_next_multiple_of'))
    IPARTS = (('a', 'true, false, false', 'const div/rem, checked/wrapping/overflowing/saturating/strict div+rem; MIN / -1 projections'),
              ('b', 'false, true, false', 'div_euclid/rem_euclid in plain, checked, wrapping, overflowing, strict form'),
              ('c', 'false, false, true', 'div_floor, div_ceil, next_multiple_of, checked_next_multiple_of'))
    small = gen == 'any' and i.bits <= 8
    if unsigned:
        add(H('C03', f"c03_u_main{g}{pth}_{i.tag}", 'c03_u_main', f"{i.n + 2}, {i.U}, {i.digit}, {i.n}, {gen}, {_x(i, False)}, {path}", tier=tier, cap=cap,
              inst=i.label, funcs='BUint / and % (div_rem_unchecked, div_rem_digit, basecase_div_rem)', bound=bnd + '; postcondition n = q*d + r, r < d', core=small, mem_gb=(8 if tier == 'quick' else 20)))
        for pn, pargs, pf in PARTS:
            add(H('C03', f"c03_u_proj{pn}{g}{pth}_{i.tag}", 'c03_u_proj', f"{i.n + 3}, {i.U}, {i.digit}, {i.n}, {gen}, {path}, {pargs}", tier=tier if small else 'thorough',
                  cap=cap if small else max(cap, 3600), inst=i.label, funcs='BUint ' + pf + ' relative to / and %', bound=bnd, core=False, mem_gb=(8 if tier == 'quick' else 20)))
    if signed and path == 'all':
        add(H('C03', f"c03_i_main{g}_{i.tag}", 'c03_i_main', f"{i.n + 2}, {i.I}, {i.digit}, {i.n}, {gen}, {_x(i, True)}", tier=tier, cap=cap, inst=i.label,
              funcs='BInt / and % (sign handling around the unsigned algorithm)', bound=bnd + ' except MIN / -1; postcondition with the sign rule', core=small, mem_gb=(8 if tier == 'quick' else 20)))
        for pn, pargs, pf in IPARTS:
            add(H('C03', f"c03_i_proj{pn}{g}_{i.tag}", 'c03_i_proj', f"{i.n + 3}, {i.I}, {i.digit}, {i.n}, {gen}, {pargs}", tier=tier if small else 'thorough',
                  cap=cap if small else max(cap, 3600), inst=i.label, funcs='BInt ' + pf, bound=bnd, core=False, mem_gb=(8 if tier == 'quick' else 20)))


for i, tier, cap in ((I(8, 3), 'thorough', 7200), (I(8, 4), 'thorough', 10800), (I(16, 3), 'thorough', 10800)):
    add(H('C03', f"c03_u_semi_{i.tag}", 'c03_u_semi', f"{i.n + 2}, {i.U}, {i.digit}, {i.n}, {_x(i, False)}", tier=tier, cap=cap, inst=i.label, core=False, mem_gb=12,
          funcs='BUint / and % (Knuth D incl. q-hat corrections and add-back)', bound='all dividends; divisor digits over the boundary alphabet; postcondition n = q*d + r, r < d'))
for i, cap in ((I(8, 3), 10800), (I(16, 2), 10800)):
    add(H('C03', f"c03_u_semi2_{i.tag}", 'c03_u_semi', f"{i.n + 2}, {i.U}, {i.digit}, {i.n}, {_x(i, False)}, any_alpha, any", tier='thorough', cap=cap, inst=i.label, core=False, mem_gb=12,
          funcs='BUint / and % (Knuth D incl. q-hat corrections and add-back)', bound='dividend digits over the boundary alphabet; all divisors; postcondition n = q*d + r, r < d'))
add(H('C03', "c03_u_semi_d16x2", 'c03_u_semi', f"4, {I(16, 2).U}, u16, 2, u64", tier='thorough', cap=10800, inst=I(16, 2).label, core=False, mem_gb=12,
      funcs='BUint / and % (Knuth D, u16 digits)', bound='all dividends; divisor digits over the boundary alphabet'))

# concrete multi-digit divisors x fully symbolic dividends (Knuth D at widths where two symbolic operands do not finish)
C03_CDIV = {
    'd8x4': (I(8, 4), [('8001', [0x01, 0x80, 0, 0]), ('ffff', [0xff, 0xff, 0, 0]), ('0101', [0x01, 0x01, 0, 0]), ('80ff', [0xff, 0x80, 0, 0]), ('7fff', [0xff, 0x7f, 0, 0]),
                      ('800001', [0x01, 0x00, 0x80, 0]), ('ffff01', [0x01, 0xff, 0xff, 0]), ('010001', [0x01, 0x00, 0x01, 0])]),
    'd16x3': (I(16, 3), [('80000001', [0x0001, 0x8000, 0]), ('ffffffff', [0xffff, 0xffff, 0]), ('00010001', [0x0001, 0x0001, 0]), ('7fffffff', [0xffff, 0x7fff, 0])]),
    'd32x3': (I(32, 3), [('8000000000000001', [0x00000001, 0x80000000, 0]), ('ffffffffffffffff', [0xffffffff, 0xffffffff, 0]), ('0000000100000001', [1, 1, 0])]),
    'd64x2': (I(64, 2), [('1d8..03', [0x8000000000000003, 0]), ('1d3', [3, 0])]),
    'd64x3': (I(64, 3), [('8..01', [1, 0x8000000000000000, 0]), ('f..f', [0xffffffffffffffff, 0xffffffffffffffff, 0]), ('1_1', [1, 1, 0])]),
}
C03_CDIV_FAST = {'8001', '800001', '0101', 'ffff01', '010001', '80000001', '00010001'}  # 27-37 s each; the others take 130-960 s
for key, (i, lst) in C03_CDIV.items():
    for tag, dv in lst:
        X = 'u64' if i.bits <= 32 else 'u128'
        if i.bits > 128:
            continue
        add(H('C03', f"c03_u_cdiv_{i.tag}_{tag.replace('.', '').replace('_', '')}", 'c03_u_cdiv', f"{i.n + 2}, {i.U}, {i.digit}, {i.n}, {X}, [{', '.join(hex(v) for v in dv)}]", tier=('quick' if tag in C03_CDIV_FAST else 'thorough'), cap=(600 if tag in C03_CDIV_FAST else 3600), inst=i.label, core=False, mem_gb=8,
              funcs='BUint / and % (Knuth D: q-hat estimate, corrections, multiply-subtract, add-back at every quotient position)', bound=f'all dividends; concrete divisor 0x{tag}; postcondition n = q*d + r, r < d'))
for tag, dv, tier in (('1d8..03', [0x8000000000000003, 0, 0], 'quick'), ('8..01', [1, 0x8000000000000000, 0], 'quick'), ('f..f', [0xffffffffffffffff, 0xffffffffffffffff, 0], 'thorough'), ('1_1', [1, 1, 0], 'quick'),
                      ('7..f_f..e', [0xfffffffffffffffe, 0x7fffffffffffffff, 0], 'thorough'),
                      ('2p130', [0, 0, 4, 0, 0], 'thorough'), ('2p128p1', [1, 0, 1, 0], 'quick'), ('2p65', [0, 2, 0, 0, 0], 'quick')):
    i = I(64, len(dv))
    add(H('C03', f"c03_u_cdiv_wide_{i.tag}_{tag.replace('.', '').replace('_', '')}", 'c03_u_cdiv_wide', f"{i.n + 2}, {i.U}, {i.n}, [{', '.join(hex(v) for v in dv)}]", tier=tier, cap=(900 if tier == 'quick' else 5400), inst=i.label, core=False, mem_gb=12,
          funcs='BUint<3> / and % (Knuth D with u64 digits, two quotient digits)', bound=f'all 2^{i.bits} dividends; concrete multi-digit divisor {tag}; limb oracle n = q*d + r, r < d'))
c03_set(I(8, 1), 'any', 'quick', 600)
c03_set(I(8, 2), 'any', 'quick', 900, path='small')
c03_set(I(16, 1), 'any', 'quick', 900)
c03_set(I(32, 1), 'any', 'thorough', 1800)
c03_set(I(64, 1), 'any', 'thorough', 3600)
c03_set(I(8, 3), 'any_alpha', 'quick', 1200)
c03_set(I(8, 2), 'any', 'thorough', 2400, path='knuth')
c03_set(I(8, 2), 'any', 'thorough', 2400, unsigned=False)
for i in (I(8, 4), I(16, 2), I(16, 3), I(32, 2), I(64, 1)):
    c03_set(i, 'any_alpha', 'thorough', 3600)
for i, tier in ((I(64, 2), 'thorough'), (I(32, 4), 'thorough')):
    add(H('C03', f"c03_w128_alpha_{i.tag}", 'c03_w128', f"{i.n + 2}, {i.U}, {i.I}, {i.digit}, {i.n}, any_alpha", tier=tier, cap=5400, mem_gb=24, core=False,
          inst=i.label, funcs='BUint/BInt / and % at 128 bits', bound='every digit over the boundary alphabet; oracle = primitive u128/i128 division'))
for tier, insts in (('quick', [I(8, 2), I(64, 2), I(16, 3)]), ('thorough', [I(8, 5), I(32, 3), I(64, 5)])):
    for i in insts:
        add(H('C03', f"c03_zero_div_{i.tag}", 'c03_zero_div', f"{i.n + 2}, {i.U}, {i.I}, {i.digit}, {i.n}", tier=tier, inst=i.label,
              funcs='checked_div/rem/div_euclid/rem_euclid/next_multiple_of with a zero divisor', bound='all dividends'))


# ---------------------------------------------------------------- C04
C04_LQ = [I(8, 1), I(8, 3), I(16, 2), I(64, 1), I(64, 2), I(64, 3)]
C04_LT = [i for i in LIN_Q + LIN_T if i not in C04_LQ]
for tier, insts in (('quick', C04_LQ), ('thorough', C04_LT)):
    for i in insts:
        for md, mode in (('ok', 'dbg'), ('panic', 'dbg'), ('rel', 'rel')):
            add(H('C04', f"c04_lin_ops_{md}_{i.tag}", 'c04_lin_ops', f"{i.n + 2}, {i.std().rsplit(',', 1)[0]}, {md}", tier=tier, mode=mode, inst=i.label,
                  kind='panic' if md == 'panic' else 'normal',
                  funcs='operators + - (BUint, BInt), unary -, abs, next_power_of_two: ' + {'ok': 'no panic and exact value when representable', 'panic': 'panic on every unrepresentable result (debug assertions on)', 'rel': 'wrapped result, no panic (debug assertions off)'}[md],
                  bound='all operands; predicate = overflow flag of the overflowing_* twin'))
C04_SQ = [I(8, 1), I(8, 3), I(64, 1), I(64, 2)]
C04_ST = [I(8, 2), I(16, 2), I(16, 3), I(32, 1), I(32, 3), I(64, 3)]
for tier, insts in (('quick', C04_SQ), ('thorough', C04_ST)):
    for i in insts:
        for sg, T in (('u', i.U), ('i', i.I)):
            for dr, op, chk, wr in (('shl', '<<', 'checked_shl', 'wrapping_shl'), ('shr', '>>', 'checked_shr', 'wrapping_shr')):
                for md, mode in (('ok', 'dbg'), ('panic', 'dbg'), ('rel', 'rel')):
                    add(H('C04', f"c04_{dr}_{sg}_{md}_{i.tag}", 'c04_shift', f"{i.n + 2}, {T}, {i.digit}, {i.n}, {op}, {chk}, {wr}, {md}", tier=tier, mode=mode,
                          inst=i.label, kind='panic' if md == 'panic' else 'normal', cap=900,
                          funcs=f"{'BUint' if sg == 'u' else 'BInt'} {op} with u8/u16/u32/u64/u128/usize/i8/i16/i32/i64/i128/isize amounts ({md})",
                          bound='all values; amount drawn as i128 and truncated to each of the 12 amount types'))
for i, tier, cap in ((I(8, 1), 'quick', 900), (I(8, 2), 'thorough', 3600)):
    for md, mode in (('ok', 'dbg'), ('panic', 'dbg'), ('rel', 'rel')):
        add(H('C04', f"c04_mul_ops_{md}_{i.tag}", 'c04_mul_ops', f"36, {i.std().rsplit(',', 1)[0]}, {md}", tier=tier, mode=mode, inst=i.label, cap=cap,
              kind='panic' if md == 'panic' else 'normal', core=False,
              funcs=f'operator *, pow, next_multiple_of (BUint, BInt) ({md})', bound='all operands, exponent over all of u32'))
for i, tag, bv, tier in ((I(64, 2), 'three', [3, 0], 'quick'), (I(64, 2), 'p2p1', [1, 1], 'thorough'), (I(64, 3), 'p2s', [0, 1, 0x8000000000000000], 'thorough'), (I(32, 2), 'five', [5, 0], 'thorough'),
                         (I(64, 2), 'min', [0, 0x8000000000000000], 'thorough'), (I(16, 4), 'p48p1', [1, 0, 0, 1], 'thorough')):
    L = i.bits // 64
    for md, mode in (('ok', 'dbg'), ('panic', 'dbg'), ('rel', 'rel')):
        add(H('C04', f"c04_cmul_ops_{md}_{i.tag}_{tag}", 'c04_cmul_ops', f"{max(2 * L, i.n) + 3}, {i.U}, {i.I}, {i.digit}, {i.n}, {L}, {2 * L}, [{', '.join(hex(v) for v in bv)}], {md}", tier=tier, mode=mode, inst=i.label, cap=1800,
              kind='panic' if md == 'panic' else 'normal', core=False, mem_gb=10,
              funcs=f'operators * / % (BUint, BInt) with one concrete operand ({md})', bound=f'all values of the other operand; concrete operand {tag}; exactness predicate = harness-side limb product'))
for i, tier in ((I(8, 1), 'quick'), (I(8, 2), 'thorough'), (I(16, 2), 'thorough'), (I(64, 2), 'thorough')):
    for mode in ('dbg', 'rel'):
        add(H('C04', f"c04_div_log_panic_{i.tag}", 'c04_div_log_panic', f"{i.n + 3}, {i.std().rsplit(',', 1)[0]}", tier=tier, mode=mode, inst=i.label, kind='panic', cap=3600, mem_gb=30,
              core=(i.bits <= 8),
              funcs='zero divisor through / % and every non-checked division method; MIN / -1, MIN % -1; ilog2/ilog10/ilog of non-positive values or base < 2',
              bound='all operands satisfying the must-panic predicate'))
for i, what, tier in ((I(8, 1), 'full', 'quick'), (I(8, 3), 'lin', 'quick'), (I(64, 2), 'lin', 'quick'), (I(8, 2), 'full', 'thorough'),
                      (I(16, 3), 'lin', 'thorough'), (I(32, 2), 'lin', 'thorough'), (I(64, 3), 'lin', 'thorough'), (I(64, 5), 'lin', 'thorough')):
    for mode in ('dbg', 'rel'):
        add(H('C04', f"c04_nopanic_{what}_{i.tag}", 'c04_nopanic', f"{36 if what == 'full' else i.n + 3}, {i.std().rsplit(',', 1)[0]}, {what}", tier=tier, mode=mode, inst=i.label, cap=1800,
              core=(what == 'lin'),
              funcs='checked_* never panic; wrapping_/overflowing_/saturating_ (non-dividing) never panic' + (' (incl. mul, div, rem, pow, ilog)' if what == 'full' else ' (linear-cost methods)'),
              bound='completely unconstrained arguments: shift amounts / exponents over all of u32, zero divisors, MIN / -1'))
for i in (I(8, 1), I(8, 3), I(64, 2)):
    add(H('C04', f"c04_strict_ok_{i.tag}", 'c01_strict_ok', f"{i.bytes + 4}, {i.std()}", mode='rel', inst=i.label, funcs='strict_add/sub/neg/abs/... value (release mode)', bound='all operands'))
    add(H('C04', f"c04_strict_panic_{i.tag}", 'c01_strict_panic', f"{i.bytes + 4}, {i.std()}", mode='rel', kind='panic', inst=i.label,
          funcs='strict_add/sub/neg/abs/... panic on overflow also without debug assertions', bound='all overflowing operands'))
    add(H('C04', f"c04_strict_shift_panic_{i.tag}", 'c05_strict_panic', f"{i.n + 2}, {i.std()}", mode='rel', kind='panic', inst=i.label,
          funcs='strict_shl/strict_shr panic for amount >= BITS also without debug assertions', bound='all amounts >= BITS'))
add(H('C04', "c04_strict_mul_panic_d8x1", 'c02_strict_panic', f"3, {I(8, 1).U}, {I(8, 1).I}, u8, 1", mode='rel', kind='panic', inst=I(8, 1).label,
      funcs='strict_mul panics on overflow also without debug assertions', bound='all overflowing pairs'))


# ---------------------------------------------------------------- C08
for i, tier, cap, eb in ((I(8, 1), 'quick', 900, 32), (I(8, 2), 'thorough', 7200, 32), (I(16, 1), 'thorough', 7200, 32)):
    add(H('C08', f"c08_pow_u_{i.tag}", 'c08_pow_u', f"{eb + 2}, {i.U}, {i.digit}, {i.n}, {eb}", tier=tier, cap=cap, inst=i.label, core=(i.bits == 8),
          funcs='BUint overflowing/checked/wrapping/saturating/strict_pow', bound=f'all bases, exponent over all of u32 (unwind {eb + 2})'))
    add(H('C08', f"c08_pow_i_{i.tag}", 'c08_pow_i', f"{eb + 2}, {i.I}, {i.digit}, {i.n}, {eb}", tier=tier, cap=cap, inst=i.label, core=(i.bits == 8),
          funcs='BInt overflowing/checked/wrapping/saturating/strict_pow', bound=f'all bases, exponent over all of u32 (unwind {eb + 2})'))
    add(H('C08', f"c08_strict_pow_panic_{i.tag}", 'c08_strict_pow_panic', f"{eb + 2}, {i.U}, {i.I}, {i.digit}, {i.n}", tier=tier, cap=cap, inst=i.label, kind='panic',
          core=(i.bits == 8), funcs='strict_pow panics on overflow (BUint, BInt)', bound='all overflowing (base, exponent) pairs'))
    for sg, T in (('u', i.U), ('i', i.I)):
        add(H('C08', f"c08_ilog_{sg}_{i.tag}", 'c08_ilog', f"{i.bits + 2}, {T}, {i.digit}, {i.n}", tier=tier, cap=cap, inst=i.label, core=(i.bits == 8),
              funcs=f"{'BUint' if sg == 'u' else 'BInt'} checked_ilog/ilog, checked_ilog2/ilog2, checked_ilog10/ilog10", bound='all (self, base) pairs'))
for i, k, tier in ((I(64, 2), 1, 'quick'), (I(8, 5), 3, 'quick'), (I(64, 3), 1, 'quick'), (I(32, 3), 5, 'thorough'), (I(16, 5), 2, 'thorough'), (I(64, 5), 7, 'thorough'), (I(8, 17), 1, 'thorough'), (I(64, 2), 63, 'thorough')):
    add(H('C08', f"c08_pow_pow2_{i.tag}_k{k}", 'c08_pow_pow2', f"36, {i.U}, {i.I}, {i.digit}, {i.n}, {k}", tier=tier, cap=1800, inst=i.label, core=False, mem_gb=8,
          funcs='BUint/BInt overflowing/checked/wrapping/saturating_pow with a concrete power-of-two base', bound=f'bases 2^{k} and -2^{k}, exponent over all of u32; symbolic bit index'))
for i, k, top, tier in ((I(64, 3), 3, '1', 'quick'), (I(64, 2), 7, '0x7fffffffffffffff', 'quick'), (I(8, 5), 2, '0x80', 'quick'), (I(64, 3), 5, 'u64::MAX', 'quick'), (I(32, 3), 4, '0x10', 'quick'),
                       (I(64, 5), 9, '0x100', 'thorough'), (I(16, 5), 3, '0x7fff', 'thorough'), (I(8, 17), 6, '0x01', 'thorough'), (I(64, 2), 63, '0x8000000000000000', 'thorough')):
    add(H('C08', f"c08_ilog_pow2_{i.tag}_k{k}", 'c08_ilog_pow2', f"{max(i.n, 12) + 4}, {i.U}, {i.I}, {i.digit}, {i.n}, {k}, {top}", tier=tier, cap=1800, inst=i.label, core=False, mem_gb=8,
          funcs='BUint/BInt checked_ilog / ilog with a concrete power-of-two base (iilog recursion: constant squarings, divisions by constants)',
          bound=f'all values whose most significant digit is {top} (all lower digits symbolic), base 2^{k}; exact result floor((bits - 1) / {k})'))
both('C08', 'c08_ilog2_lin', LIN_Q, LIN_T, group='checked_ilog2 / ilog2 (highest set bit)', bound='all values, symbolic bit index')


# ---------------------------------------------------------------- C17
C17_Q = [I(8, 2), I(64, 2)]
C17_T = [I(16, 2), I(32, 2), I(8, 3), I(64, 3)]
for tier, insts in (('quick', C17_Q), ('thorough', C17_T)):
    for i in insts:
        for sg, T in (('u', i.U), ('i', i.I)):
            nm = 'BUint' if sg == 'u' else 'BInt'
            for md in ('ok', 'panic'):
                add(H('C17', f"c17_lin_{md}_{sg}_{i.tag}", 'c17_binops', f"{i.n + 2}, {T}, {i.digit}, {i.n}, lin, 5, {md}", tier=tier, inst=i.label,
                      kind='panic' if md == 'panic' else 'normal',
                      funcs=f"{nm} Add/Sub/BitAnd/BitOr/BitXor: v op v, &v op v, v op &v, &v op &v, op=, op= &, const twin ({md})", bound='all operand pairs, all 7 forms'))
            for m in (1, 2):
                AU, AI = Inst(i.digit, m).U, Inst(i.digit, m).I
                add(H('C17', f"c17_shift_bnum_{sg}_{i.tag}_m{m}", 'c17_shift_bnum', f"{i.n + 3}, {T}, {i.digit}, {i.n}, {AU}, {AI}, {i.digit}, {m}", tier=tier, inst=i.label, cap=900,
                      funcs=f"{nm} Shl/Shr with BUint<{m}> / BInt<{m}> amounts below BITS (value, reference, assign forms)", bound='all values, all amounts below BITS'))
            add(H('C17', f"c17_fold_{sg}_{i.tag}", 'c17_fold', f"{i.n + 3}, {T}, {i.digit}, {i.n}, false", tier=tier, inst=i.label,
                  funcs=f"{nm} Sum over slices of length 0..=3 (by reference and by value)", bound='all element values, length 0..=3'))
        add(H('C17', f"c17_unary_{i.tag}", 'c17_unary', f"{i.n + 2}, {i.U}, {i.I}, {i.digit}, {i.n}", tier=tier, inst=i.label, funcs='Not, Neg (value and reference), Default', bound='all values'))
        add(H('C17', f"c17_digit_add_{i.tag}", 'c17_digit_ops', f"{i.n + 2}, {i.U}, {i.digit}, {i.n}, any, false", tier=tier, inst=i.label,
              funcs='BUint + digit', bound='all values and digits with a representable sum'))
for i, tier, cap in ((I(8, 1), 'quick', 1200), (I(16, 1), 'quick', 1200), (I(64, 1), 'thorough', 3600), (I(8, 3), 'thorough', 5400), (I(64, 2), 'thorough', 5400)):
    for sg, T in (('u', i.U), ('i', i.I)):
        nm = 'BUint' if sg == 'u' else 'BInt'
        add(H('C17', f"c17_shift_forms_{sg}_{i.tag}", 'c17_shift_forms', f"{i.n + 2}, {T}, {i.digit}, {i.n}", tier=tier, inst=i.label, cap=cap, core=(tier == 'quick'), mem_gb=10,
              funcs=f"{nm} Shl/Shr reference and assign forms for the 12 primitive amount types", bound='all values, all in-range amounts'))
        add(H('C17', f"c17_shift_forms_panic_{sg}_{i.tag}", 'c17_shift_forms_panic', f"{i.n + 2}, {T}, {i.digit}, {i.n}", tier=tier, inst=i.label, cap=cap, kind='panic', core=(tier == 'quick'), mem_gb=10,
              funcs=f"{nm} Shl/Shr reference and assign forms panic for out-of-range amounts of the 12 primitive amount types", bound='all values, all out-of-range amounts'))
for i, tier, cap in ((I(8, 1), 'quick', 900), (I(8, 2), 'thorough', 3600)):
    for sg, T in (('u', i.U), ('i', i.I)):
        for md in ('ok', 'panic'):
            add(H('C17', f"c17_mul_{md}_{sg}_{i.tag}", 'c17_binops', f"{i.n + 3}, {T}, {i.digit}, {i.n}, mul, 3, {md}", tier=tier, inst=i.label, cap=cap, core=False,
                  kind='panic' if md == 'panic' else 'normal',
                  funcs=f"{'BUint' if sg == 'u' else 'BInt'} Mul/Div/Rem: all 7 forms ({md})", bound='all operand pairs'))
        add(H('C17', f"c17_fold_prod_{sg}_{i.tag}", 'c17_fold', f"{i.n + 3}, {T}, {i.digit}, {i.n}, true", tier=tier, inst=i.label, cap=cap, core=False,
              funcs='Sum and Product over slices of length 0..=3', bound='all element values, length 0..=3'))
    add(H('C17', f"c17_digit_div_{i.tag}", 'c17_digit_ops', f"{i.n + 3}, {i.U}, {i.digit}, {i.n}, any, true", tier=tier, inst=i.label, cap=cap, core=False,
          funcs='BUint + digit, BUint / digit, BUint % digit', bound='all values and digits'))
for i, tier in ((I(8, 3), 'quick'), (I(16, 2), 'thorough'), (I(32, 2), 'thorough')):
    add(H('C17', f"c17_digit_div_alpha_{i.tag}", 'c17_digit_ops', f"{i.n + 3}, {i.U}, {i.digit}, {i.n}, any_alpha, true", tier=tier, inst=i.label, cap=1800, core=False,
          funcs='BUint / digit, BUint % digit', bound='value digits over the boundary alphabet, all digit divisors'))


# ---------------------------------------------------------------- C18
both('C18', 'c18_forward_lin', [I(8, 1), I(8, 3), I(64, 1), I(64, 2)], [I(16, 2), I(32, 3), I(64, 3), I(8, 17)], cap=900,
     group='Checked/Saturating/Wrapping/Overflowing Add+Sub+Neg+Shl+Shr forwarders, Bounded, Zero/One, is_even/odd, PrimInt counts/rotate/swap/endian, signed/unsigned shl/shr',
     bound='all operands, shift amounts over all of u32 (PrimInt shifts: below BITS), symbolic bit index')
both('C18', 'c18_signed', [I(8, 1), I(8, 3), I(64, 2)], [I(16, 2), I(32, 3), I(64, 3)], signs=('i',), group='Signed: abs, abs_sub, signum, is_positive, is_negative')
for i, tier, cap, steps in ((I(8, 1), 'quick', 1200, 13), (I(8, 2), 'thorough', 7200, 24), (I(16, 1), 'thorough', 7200, 24)):
    for sg, T in (('u', i.U), ('i', i.I)):
        add(H('C18', f"c18_gcd_{sg}_{i.tag}", 'c18_gcd', f"{steps + 2}, {T}, {i.digit}, {i.n}, {steps}", tier=tier, cap=cap, inst=i.label, core=False, mem_gb=10,
              funcs=f"{'BUint' if sg == 'u' else 'BInt'} Integer::gcd / lcm", bound='all operand pairs; Euclid oracle'))
        add(H('C18', f"c18_integer_{sg}_{i.tag}", 'c18_integer', f"{i.n + 4}, {T}, {i.digit}, {i.n}", tier=tier, cap=cap, inst=i.label, mem_gb=10,
              core=(i.bits == 8),
              funcs=f"{'BUint' if sg == 'u' else 'BInt'} CheckedMul/Div/Rem, CheckedEuclid, Euclid, SaturatingMul, WrappingMul, Pow, MulAdd, Integer::div_floor/mod_floor/div_rem/divides/is_multiple_of",
              bound='all operand pairs; exact i32 oracle'))
for i, tier in ((I(8, 1), 'quick'), (I(8, 3), 'quick'), (I(64, 2), 'quick'), (I(64, 3), 'thorough'), (I(8, 17), 'thorough')):
    add(H('C18', f"c18_roots_trivial_{i.tag}", 'c18_roots_trivial', f"{i.n + 3}, {i.std().rsplit(',', 1)[0]}", tier=tier, inst=i.label, cap=900, core=False,
          funcs='Roots: nth_root(1), roots of 0 and 1', bound='all values for degree 1; values 0 and 1 for every degree >= 1'))
    add(H('C18', f"c18_roots_panic_{i.tag}", 'c18_roots_panic', f"{i.n + 3}, {i.std().rsplit(',', 1)[0]}", tier=tier, inst=i.label, cap=900, kind='panic', core=False,
          funcs='Roots: nth_root(0), sqrt / even root of a negative value panic', bound='all values'))

for i, tier in ((I(64, 3), 'quick'), (I(8, 17), 'quick'), (I(32, 5), 'thorough'), (I(16, 9), 'thorough'), (I(64, 5), 'thorough')):
    stubs = [f"kani::stub(bnum::{DIG[i.digit][2]}::fixpoint, crate::c18::fixpoint_stub_{i.digit})", "kani::stub(<u128 as num_integer::Roots>::sqrt, crate::c18::u128_sqrt_stub)",
             "kani::stub(<u128 as num_integer::Roots>::cbrt, crate::c18::u128_cbrt_stub)", "kani::stub(<u128 as num_integer::Roots>::nth_root, crate::c18::u128_nth_root_stub)"]
    add(H('C18', f"c18_roots_shortcut_{i.tag}", 'c18_roots_shortcut', f"{i.n + 3}, {i.std().rsplit(',', 1)[0]}, bnum::BUint<8>, [{', '.join(stubs)}]", tier=tier, inst=i.label, cap=1200, stub=True, core=False,
          funcs='Roots::nth_root (BUint, BInt): degree dispatch, zero/one and bits <= n shortcuts, delegation to the u128 implementation below 2^128, sign handling; Newton kernel (fixpoint) and u128 roots replaced by uninterpreted stand-ins',
          bound='all values, all degrees 1..=u32::MAX; shortcut results exact, all other inputs reach the kernel'))

for i, degs, tier in ((I(64, 3), (4, 13, 14, 16, 47, 191), 'quick'), (I(8, 17), (4, 9, 12, 135), 'quick'), (I(32, 5), (5, 33), 'thorough'), (I(64, 5), (7, 100), 'thorough')):
    for dg in degs:
        stubs = [f"kani::stub(bnum::{DIG[i.digit][2]}::fixpoint, crate::c18::fixpoint_once_stub_{i.digit})"]
        top = f"{i.digit}::MAX" if dg % 2 == 0 else f"1 << ({i.digit}::BITS - 1)"
        add(H('C18', f"c18_roots_first_step_{i.tag}_n{dg}", 'c18_roots_first_step', f"{max(i.n + 3, 10)}, {i.std().rsplit(',', 1)[0]}, bnum::BUint<8>, {dg}, {top}, [{', '.join(stubs)}]", tier=tier, inst=i.label, cap=1800, stub=True, core=False,
              funcs=f'Roots::nth_root({dg}): the first Newton step (guess^(n-1), division, weighted mean) evaluated on the initial guess',
              bound=f'all values with the concrete top digit {top} (full bit length {i.bits}), concrete degree {dg}; initial guess, no panic / overflow in the first step and its exact value; later steps not encoded'))


# ---------------------------------------------------------------- C10
def c10_str(i, sg, L, lo, hi, tier, cap=1800, core=False):
    T = i.U if sg == 'u' else i.I
    r = f"r{lo}" if lo == hi else f"r{lo}to{hi}"
    add(H('C10', f"c10_str_{sg}_{i.tag}_{r}_l{L}", 'c10_str', f"{L + 2}, {T}, {i.digit}, {i.n}, {L}, {L}, {lo}, {hi}", tier=tier, cap=cap, inst=i.label, core=core, mem_gb=6,
          funcs=f"{'BUint' if sg == 'u' else 'BInt'}::from_str_radix" + (' + FromStr' if lo <= 10 <= hi else ''),
          bound=f"all ASCII strings of length 0..={L}, radix {lo}..={hi}; unwind {L + 2}"))


def c10_digits(i, sg, L, lo, hi, tier, cap=1800, core=False):
    T = i.U if sg == 'u' else i.I
    r = f"r{lo}" if lo == hi else f"r{lo}to{hi}"
    add(H('C10', f"c10_digits_{sg}_{i.tag}_{r}_l{L}", 'c10_digits', f"{max(L, 2 * i.bytes) + 3}, {T}, {i.digit}, {i.n}, {L}, {lo}, {hi}", tier=tier, cap=cap, inst=i.label, core=core, mem_gb=6,
          funcs=f"{'BUint' if sg == 'u' else 'BInt'}::from_radix_be / from_radix_le", bound=f"all digit slices of length 0..={L}, radix {lo}..={hi}"))


for sg in ('u', 'i'):
    c10_str(I(8, 1), sg, 10, 2, 2, 'quick', core=True)
    c10_str(I(8, 1), sg, 4, 16, 16, 'quick', core=True)
    c10_str(I(8, 1), sg, 5, 10, 10, 'quick', core=True)
    c10_str(I(8, 1), sg, 4, 36, 36, 'quick')
    c10_str(I(8, 1), sg, 3, 2, 36, 'quick')
    c10_str(I(8, 1), sg, 10, 10, 10, 'thorough', cap=7200)
    c10_str(I(8, 1), sg, 10, 3, 3, 'quick', cap=1800)
    c10_str(I(8, 1), sg, 6, 4, 4, 'thorough')
    c10_str(I(8, 1), sg, 5, 8, 8, 'thorough')
    c10_str(I(8, 1), sg, 7, 3, 3, 'thorough')
    c10_str(I(8, 1), sg, 4, 2, 36, 'thorough', cap=5400)
    c10_str(I(8, 2), sg, 5, 10, 10, 'quick', cap=1800)
    c10_str(I(8, 2), sg, 6, 16, 16, 'thorough', cap=5400)
    c10_str(I(8, 2), sg, 7, 10, 10, 'thorough', cap=5400)
    c10_str(I(8, 2), sg, 4, 2, 36, 'thorough', cap=5400)
    c10_str(I(16, 1), sg, 6, 16, 16, 'thorough', cap=5400)
    c10_str(I(16, 1), sg, 7, 10, 10, 'thorough', cap=5400)
    for i in (I(32, 1), I(64, 1)):
        c10_str(i, sg, 4, 16, 16, 'thorough', cap=3600)
        c10_str(i, sg, 4, 10, 10, 'thorough', cap=3600)
    add(H('C10', f"c10_bytes_{sg}_d8x1", 'c10_bytes', f"6, {I(8, 1).U if sg == 'u' else I(8, 1).I}, u8, 1, 3, 10", inst=I(8, 1).label, cap=1800, core=False, mem_gb=6,
          funcs='parse_bytes (UTF-8 validation + grammar)', bound='all byte strings of length 0..=3, radix 10'))
for i, sg, L, R, first, tier in ((I(64, 1), 'u', 20, 10, '1', 'thorough'), (I(64, 1), 'u', 19, 10, '9', 'quick'), (I(64, 1), 'i', 20, 10, '-', 'quick'), (I(64, 2), 'u', 33, 16, '0', 'quick'), (I(32, 2), 'i', 18, 16, '+', 'quick'),
                                 (I(64, 1), 'u', 21, 10, '+', 'thorough'), (I(64, 1), 'u', 21, 10, '0', 'thorough'), (I(64, 1), 'i', 20, 10, '+', 'thorough'), (I(64, 1), 'i', 19, 10, '9', 'thorough'), (I(16, 4), 'u', 19, 10, '7', 'thorough'),
                                 (I(64, 2), 'u', 39, 10, '3', 'thorough'), (I(16, 4), 'i', 20, 10, '-', 'thorough'),
                                 (I(32, 2), 'u', 20, 10, '1', 'thorough'), (I(32, 3), 'u', 25, 16, '+', 'thorough'), (I(64, 1), 'u', 13, 36, '3', 'thorough'), (I(64, 1), 'i', 41, 3, '-', 'thorough'),
                                 (I(64, 2), 'u', 65, 4, '0', 'thorough'), (I(8, 16), 'u', 33, 16, '+', 'thorough'), (I(16, 8), 'i', 129, 2, '-', 'thorough'), (I(64, 2), 'u', 32, 16, 'f', 'thorough')):
    T = i.U if sg == 'u' else i.I
    fn = {'+': 'plus', '-': 'minus'}.get(first, first)
    add(H('C10', f"c10_strfix_{sg}_{i.tag}_r{R}_l{L}_{fn}", 'c10_str_fixed', f"{L + 3}, {T}, {i.digit}, {i.n}, {L}, {R}, b'{first}'", tier=tier, cap=1800 if tier == 'quick' else 3600, inst=i.label, core=False, mem_gb=8,
          funcs=f"{'BUint' if sg == 'u' else 'BInt'}::from_str_radix, full-capacity strings",
          bound=f"all ASCII strings of length exactly {L} whose first byte is '{first}' (capacity of the type, incl. a sign / leading zero / one digit too many), radix {R}; u128 reference parser"))
c10_digits(I(8, 1), 'u', 10, 2, 2, 'quick', core=True)
c10_digits(I(8, 1), 'u', 4, 16, 16, 'quick', core=True)
c10_digits(I(8, 1), 'u', 4, 10, 10, 'quick')
c10_digits(I(8, 1), 'u', 3, 255, 255, 'quick')
c10_digits(I(8, 1), 'u', 3, 256, 256, 'quick')
c10_digits(I(8, 1), 'i', 4, 16, 16, 'quick')
c10_digits(I(8, 1), 'u', 3, 2, 256, 'thorough', cap=5400)
c10_digits(I(8, 2), 'u', 6, 16, 16, 'thorough', cap=5400)
c10_digits(I(8, 2), 'u', 4, 256, 256, 'thorough')
c10_digits(I(8, 2), 'u', 6, 10, 10, 'thorough', cap=5400)
c10_digits(I(16, 1), 'u', 6, 16, 16, 'thorough', cap=5400)
c10_digits(I(16, 1), 'u', 4, 256, 256, 'thorough')
c10_digits(I(32, 1), 'u', 6, 256, 256, 'thorough')
c10_digits(I(64, 1), 'u', 4, 10, 10, 'thorough', cap=5400)
for i, tier in ((I(8, 1), 'quick'), (I(64, 2), 'thorough')):
    add(H('C10', f"c10_radix_panic_{i.tag}", 'c10_radix_panic', f"12, {i.U}, {i.I}", tier=tier, inst=i.label, kind='panic', cap=900, core=False,
          funcs='from_str_radix / parse_bytes / from_radix_be / from_radix_le with an out-of-range radix', bound='all radices outside 2..=36 (2..=256)'))


# ---------------------------------------------------------------- C11
import math


def c11(i, sg, R, tier, what, vmax=0, cap=1800, core=False, seeded=False):
    """what: 'digits' (to_radix_le/be postcondition), 'rt' (+ round trip through from_radix_*), 'str' (to_str_radix postcondition), 'strrt' (+ parse round trip)"""
    T = i.U if sg == 'u' else i.I
    bits = i.bits if not vmax else vmax.bit_length()
    maxd = max(1, math.ceil(bits / math.log2(R)))
    if R & (R - 1) == 0:
        maxd = math.ceil(bits / int(math.log2(R)))
    with_str = 'true' if what in ('str', 'strrt') else 'false'
    rt = 'true' if what in ('rt', 'strrt') else 'false'
    add(H('C11', f"c11_{what}_{sg}_{i.tag}_r{R}", 'c11_radix', f"{max(maxd, i.bytes) + 3}, {T}, {i.digit}, {i.n}, {R}, {maxd}, {with_str}, {vmax}, {rt}",
          tier=tier, cap=cap, inst=i.label, core=core, seeded=seeded, mem_gb=(8 if what in ('digits', 'str') else 16),
          funcs=f"{'BUint' if sg == 'u' else 'BInt'}::to_radix_le/to_radix_be" + ('/to_str_radix' if with_str == 'true' else '') + (' + round trip through from_radix_*' + ('/from_str_radix' if with_str == 'true' else '') if rt == 'true' else ''),
          bound=('all values' if not vmax else f'all values <= {vmax}') + f', radix {R} (concrete)'))


for R in (2, 3, 7, 8, 10, 16, 32, 36, 100, 128, 255, 256):
    c11(I(8, 1), 'u', R, 'quick' if R not in (2, 3) else 'thorough', 'digits', core=(R in (10, 16, 256)), cap=1800 if R not in (2, 3) else 5400)
for R in (2, 10, 16, 36):
    c11(I(8, 1), 'u', R, 'quick' if R in (16, 36) else 'thorough', 'str', cap=1800 if R in (16, 36) else 5400)
for R in (2, 10, 16, 256):
    c11(I(8, 1), 'u', R, 'quick' if R in (16, 256) else 'thorough', 'rt', cap=3600)
for R in (10, 16):
    c11(I(8, 1), 'i', R, 'quick', 'digits')
    c11(I(8, 1), 'u', R, 'thorough', 'strrt', cap=5400)
for R in range(2, 257):
    if R not in (2, 3, 7, 8, 10, 16, 32, 36, 100, 128, 255, 256):
        c11(I(8, 1), 'u', R, 'thorough', 'digits', seeded=(R >= 5))
    if R <= 36 and R not in (2, 10, 16, 36):
        c11(I(8, 1), 'u', R, 'thorough', 'str')
for R in (2, 3, 8, 36, 255, 256):
    c11(I(8, 1), 'i', R, 'thorough', 'digits')
for i, vmax in ((I(16, 1), 0), (I(32, 1), 65535), (I(64, 1), 65535)):
    for R in (16, 256, 10, 8):
        c11(i, 'u', R, 'quick' if (R == 256 or (i.bits == 16 and R == 16)) else 'thorough', 'digits', vmax=vmax, cap=3600)
for R in (2, 8, 10, 16, 32, 36, 255, 256):
    c11(I(8, 2), 'u', R, 'quick' if R == 256 else 'thorough', 'digits', cap=7200)
for i, R, tier in ((I(8, 1), 10, 'thorough'), (I(8, 1), 16, 'thorough'), (I(8, 1), 2, 'thorough'), (I(8, 1), 36, 'thorough'), (I(8, 2), 10, 'thorough')):
    maxd = math.ceil(i.bits / math.log2(R))
    add(H('C11', f"c11_str_neg_{i.tag}_r{R}", 'c11_str_neg', f"{maxd + 5}, {i.I}, {i.digit}, {i.n}, {R}, {maxd}", tier=tier, cap=3600, inst=i.label, core=False, mem_gb=16,
          funcs="BInt::to_str_radix for negative values ('-' + magnitude) + round trip", bound=f'all negative values, radix {R}'))
for i, R, lg, top, tier in ((I(64, 5), 256, 8, '1', 'quick'), (I(64, 5), 16, 4, 'u64::MAX', 'quick'), (I(32, 9), 256, 8, '0x1f', 'quick'), (I(8, 40), 16, 4, '0x80', 'quick'), (I(64, 3), 8, 3, '1', 'quick'),
                           (I(16, 17), 256, 8, '1', 'thorough'), (I(64, 5), 2, 1, '3', 'thorough'), (I(64, 5), 32, 5, '1 << 63', 'thorough'), (I(32, 5), 128, 7, '0x7fff_ffff', 'thorough'),
                           (I(16, 9), 64, 6, '1', 'thorough'), (I(8, 33), 256, 8, '1', 'thorough'), (I(8, 17), 4, 2, '0xff', 'thorough')):
    n = -(-((i.n - 1) * i.dbits + int(eval(top.replace('u64::MAX', str(2**64-1)).replace('_', ''))).bit_length()) // lg)
    add(H('C11', f"c11_wide_{i.tag}_r{R}", 'c11_wide', f"{max(n, i.n) + 3}, {i.U}, {i.digit}, {i.n}, {R}, {lg}, {top}", tier=tier, cap=1800, inst=i.label, core=False, mem_gb=10,
          funcs='BUint::to_radix_le / to_radix_be, power-of-two radix (to_bitwise_digits_le / to_inexact_bitwise_digits_le), widths above 128 bits',
          bound=f'all values whose most significant digit is {top} (all lower digits symbolic), radix {R}; symbolic output position'))
# (calibration: D64x3 radix 10 and D16x9 radix 3 did not finish in 1350 s; the family is kept small and thorough-only)
for i, R, top, tier in ((I(64, 3), 10, '1', 'thorough'), (I(8, 17), 3, '0xff', 'thorough')):
    tv = int(eval(top.replace('u64::MAX', str(2**64-1)).replace('_', '')))
    bits = (i.n - 1) * i.dbits + tv.bit_length()
    maxd = len(_digits_in(2 ** bits - 1, R)) if False else int(math.floor(bits / math.log2(R))) + 1
    L64 = -(-i.bits // 64)
    add(H('C11', f"c11_widegen_{i.tag}_r{R}_{'max' if 'MAX' in top or 'ff' in top else 't' + str(tv)}", 'c11_wide_gen', f"{max(maxd, i.n, 20) + 3}, {i.U}, {i.digit}, {i.n}, {R}, {maxd}, {L64}, {top}", tier=tier, cap=5400, inst=i.label, core=False, mem_gb=16,
          funcs='BUint::to_radix_le / to_radix_be, general radix (to_radix_digits_le: repeated division by radix^power), widths above 128 bits',
          bound=f'all values whose most significant digit is {top} (all lower digits symbolic), radix {R}; Horner oracle in exact limb arithmetic'))
add(H('C11', "c11_radix_panic_d8x1", 'c11_radix_panic', f"12, {I(8, 1).U}, {I(8, 1).I}", inst=I(8, 1).label, kind='panic', cap=1800, core=False,
      funcs='to_radix_le/be, to_str_radix with an out-of-range radix', bound='radices 0, 1, 37 / 257, u32::MAX'))


# ---------------------------------------------------------------- C20
for i, tier, cap in ((I(8, 1), 'quick', 900), (I(8, 2), 'thorough', 7200), (I(16, 1), 'thorough', 7200)):
    for sg, T in (('u', i.U), ('i', i.I)):
        nm = 'BUint' if sg == 'u' else 'BInt'
        add(H('C20', f"c20_range_{sg}_{i.tag}", 'c20_range', f"{i.bytes + 4}, {T}, {i.digit}, {i.n}", tier=tier, cap=cap, inst=i.label, core=(i.bits == 8), mem_gb=6,
              funcs=f"{nm} gen_range(a..b), gen_range(a..=b), Uniform::new(..).sample, Uniform::new_inclusive(..).sample, sample_single, sample_single_inclusive",
              bound='all bounds, all RNG streams with at most 2 rejections (3 draws)'))
        for single in (False, True):
            add(H('C20', f"c20_unbiased_{'single' if single else 'uniform'}_{sg}_{i.tag}", 'c20_unbiased', f"{i.bytes + 4}, {T}, {i.digit}, {i.n}, {'true' if single else 'false'}",
                  tier=tier, cap=cap, inst=i.label, core=(i.bits == 8), mem_gb=24,
                  funcs=f"{nm} {'sample_single_inclusive' if single else 'Uniform::sample'}: equal number of accepted RNG words per value",
                  bound='all bounds, all pairs of offsets, all word positions inside a block (relational 2-run query)'))
for i in (I(8, 3), I(16, 2)):
    for sg, T in (('u', i.U), ('i', i.I)):
        add(H('C20', f"c20_range_alpha_{sg}_{i.tag}", 'c20_range', f"{i.bytes + 4}, {T}, {i.digit}, {i.n}, any_alpha", tier='thorough', cap=10800, inst=i.label, core=False, mem_gb=16,
              funcs='range membership on a type wider than 16 bits (the approximate-zone branch of sample_single_inclusive)', bound='bounds with digits over the boundary alphabet, all RNG streams with at most 2 rejections'))
C20_CONC = [
    (I(64, 2), 'u', 'small', [0, 0], [2, 0], 'quick'), (I(64, 2), 'u', 'cross', [5, 0], [4, 1], 'quick'), (I(64, 2), 'u', 'full', [0, 0], [0xffffffffffffffff, 0xffffffffffffffff], 'quick'),
    (I(64, 2), 'i', 'span0', [0xfffffffffffffffd, 0xffffffffffffffff], [7, 0], 'quick'), (I(64, 2), 'i', 'full', [0, 0x8000000000000000], [0xffffffffffffffff, 0x7fffffffffffffff], 'thorough'),
    (I(64, 2), 'u', 'pow2p1', [0, 0], [0, 0x8000000000000000], 'thorough'), (I(8, 3), 'u', 'mid', [0x10, 0, 0], [0x0f, 0x80, 0x7f], 'quick'), (I(32, 3), 'i', 'span0', [0xffff0000, 0xffffffff, 0xffffffff], [0x1234, 1, 0], 'thorough'),
    (I(64, 3), 'u', 'wide', [1, 0, 0], [0, 0, 1], 'thorough'), (I(16, 2), 'u', 'odd', [3, 0], [0xfffe, 0x7fff], 'quick'),
]
for i, sg, tag, lo, hi, tier in C20_CONC:
    T = i.U if sg == 'u' else i.I
    add(H('C20', f"c20_range_conc_{sg}_{i.tag}_{tag}", 'c20_range', f"{i.bytes + 4}, {T}, {i.digit}, {i.n}, [{', '.join(hex(v) for v in lo)}], [{', '.join(hex(v) for v in hi)}]", tier=tier, cap=1800, inst=i.label, core=False, mem_gb=8,
          funcs=f"{'BUint' if sg == 'u' else 'BInt'} gen_range / Uniform / sample_single(_inclusive) on a type wider than 16 bits",
          bound=f'concrete bounds ({tag}), all RNG streams with at most 2 rejections (3 draws); result inside the range'))
C20_UNB = [
    (I(64, 1), 'i', 'r5', [0xfffffffffffffffe], [2]), (I(64, 1), 'u', 'p2p1', [0], [0x100000000]), (I(32, 2), 'u', 'r3', [0xffffffff, 0], [1, 1]), (I(16, 2), 'u', 'p2', [0, 0], [0xffff, 0]),
    (I(32, 1), 'u', 'r3', [5], [7]), (I(8, 4), 'i', 'r7', [0xfd, 0xff, 0xff, 0xff], [3, 0, 0, 0]),
    (I(8, 3), 'u', 'r5', [0xfe, 0xff, 0x00], [0x02, 0x00, 0x01]), (I(16, 3), 'i', 'r3', [0xffff, 0xffff, 0xffff], [1, 0, 0]), (I(8, 5), 'u', 'p2p1', [0, 0, 0, 0, 0], [0, 0, 1, 0, 0]),
]
for i, sg, tag, lo, hi in C20_UNB:
    T = i.U if sg == 'u' else i.I
    for single in (False, True):
        add(H('C20', f"c20_unbiased_conc_{'single' if single else 'uniform'}_{sg}_{i.tag}_{tag}", 'c20_unbiased_conc',
              f"{i.bytes + 4}, {T}, {i.digit}, {i.n}, {'true' if single else 'false'}, [{', '.join(hex(v) for v in lo)}], [{', '.join(hex(v) for v in hi)}]", tier='quick', cap=600, inst=i.label, core=False, mem_gb=6,
              funcs=f"{'BUint' if sg == 'u' else 'BInt'} {'sample_single_inclusive' if single else 'Uniform::sample'}: equal number of accepted RNG words per value, 32/64-bit types",
              bound=f'concrete bounds ({tag}: small or sparse range sizes), all pairs of offsets, all word positions inside a block (relational 2-run query)'))
for i, tier in ((I(8, 1), 'quick'), (I(8, 3), 'quick'), (I(64, 2), 'quick'), (I(16, 2), 'thorough'), (I(32, 3), 'thorough'), (I(64, 1), 'thorough'), (I(64, 3), 'thorough')):
    add(H('C20', f"c20_fill_{i.tag}", 'c20_fill', f"{3 * i.bytes + 3}, {i.U}, {i.I}, {i.digit}, {i.n}", tier=tier, cap=1800, inst=i.label, mem_gb=6,
          funcs='Standard (rng.gen) for BUint/BInt, Fill / try_fill_slice for slices of length 0..=3', bound='all RNG streams, symbolic byte index'))


# ---------------------------------------------------------------- C16
def c16_pair(macro, a, b, sg, tier, extra='', cap=1200, core=True, label=''):
    A, B = (a.U, b.U) if sg == 'u' else (a.I, b.I)
    add(H('C16', f"{macro}{'_alpha' if 'any_alpha' in extra else ''}_{sg}_{a.tag}_{b.tag}", macro, f"{max(a.n, b.n, a.bytes if 'lin' in macro or 'shift' in macro else 0) + 3}, {A}, {a.digit}, {a.n}, {B}, {b.digit}, {b.n}{extra}",
          tier=tier, cap=cap, inst=f"{a.label} vs {b.label}", core=core, funcs=label, bound='all operand values' if 'alpha' not in extra else 'digits over the boundary alphabet'))


for sg in ('u', 'i'):
    for a, b, tier in ((I(8, 4), I(32, 1), 'quick'), (I(8, 4), I(16, 2), 'quick'), (I(8, 8), I(64, 1), 'quick'), (I(16, 4), I(32, 2), 'quick'), (I(8, 16), I(64, 2), 'quick128'),
                       (I(8, 2), I(16, 1), 'quick'), (I(8, 6), I(16, 3), 'thorough'), (I(8, 8), I(16, 4), 'thorough'), (I(32, 2), I(64, 1), 'thorough'), (I(32, 4), I(64, 2), 'thorough'),
                       (I(16, 8), I(64, 2), 'thorough'), (I(8, 12), I(32, 3), 'thorough')):
        c16_pair('c16_same_width_lin', a, b, sg, 'quick' if tier == 'quick128' else tier, label='equal width, two digit types: add/sub/neg/cmp/bitwise/counts/swap/reverse/saturating/casts')
        c16_pair('c16_same_width_shift', a, b, sg, 'thorough' if tier == 'quick128' else tier, cap=3600, label='equal width, two digit types: shl/shr/rotate/unbounded shifts, amount over all of u32')
    c16_pair('c16_same_width_mul', I(8, 2), I(16, 1), sg, 'thorough', extra=', any', cap=7200, core=False, label='equal width 16: mul/div/rem/pow full operands')
    c16_pair('c16_same_width_mul', I(8, 2), I(16, 1), sg, 'quick', extra=', any_alpha', cap=1800, core=False, label='equal width 16: mul/div/rem/pow, u8 digits over the boundary alphabet')
    for a, b in ((I(16, 2), I(32, 1)), (I(8, 8), I(64, 1))):
        c16_pair('c16_same_width_mul', a, b, sg, 'thorough', extra=', any_alpha', cap=5400, core=False, label='equal width: mul/div/rem/pow, alphabet operands')
    for a, b, mul, tier in ((I(8, 1), I(8, 2), 'true', 'quick'), (I(8, 1), I(16, 1), 'true', 'thorough'), (I(8, 2), I(8, 3), 'false', 'quick'), (I(16, 1), I(32, 1), 'false', 'quick'),
                            (I(64, 1), I(64, 2), 'false', 'quick'), (I(8, 3), I(64, 1), 'false', 'thorough'), (I(32, 1), I(8, 5), 'false', 'thorough'), (I(64, 2), I(64, 3), 'false', 'thorough')):
        c16_pair('c16_extend', a, b, sg, tier, extra=f', {mul}', cap=3600, core=(mul == 'false'),
                 label='zero-/sign-extension commutes with add/sub/cmp/shl' + (' and mul/div/rem/pow' if mul == 'true' else ''))
C16_CMUL = [
    (I(8, 4), I(32, 1), 'u', '8001', [0x01, 0x80, 0, 0], 'quick'), (I(8, 8), I(64, 1), 'u', 'ffff0001', [0x01, 0, 0xff, 0xff, 0, 0, 0, 0], 'thorough'), (I(8, 8), I(64, 1), 'u', '8001', [0x01, 0x80, 0, 0, 0, 0, 0, 0], 'quick'), (I(16, 4), I(32, 2), 'i', '8000_0001', [1, 0, 0, 0x80, 0, 0, 0, 0], 'quick'),
    (I(32, 4), I(64, 2), 'u', '2p64p1', [1, 0, 0, 0, 0, 0, 0, 0, 1, 0, 0, 0, 0, 0, 0, 0], 'quick'),
    (I(32, 4), I(64, 2), 'u', '1d8003', [3, 0, 0, 0, 0, 0, 0, 0x80, 0, 0, 0, 0, 0, 0, 0, 0], 'quick'), (I(8, 16), I(64, 2), 'u', 'top80', [1, 0, 0, 0, 0, 0, 0, 0, 0, 0, 0, 0x80, 0, 0, 0, 0], 'thorough'),
    (I(16, 8), I(32, 4), 'i', 'neg3', [0xfd, 0xff, 0xff, 0xff, 0xff, 0xff, 0xff, 0xff, 0xff, 0xff, 0xff, 0xff, 0xff, 0xff, 0xff, 0xff], 'thorough'), (I(32, 2), I(64, 1), 'i', 'min', [0, 0, 0, 0, 0, 0, 0, 0x80], 'quick'),
    (I(8, 12), I(32, 3), 'u', 'mid', [0xff, 0xff, 0, 0, 0x01, 0, 0, 0x80, 0, 0, 0, 0], 'thorough'),
]
for a, b, sg, tag, yb, tier in C16_CMUL:
    A, B = (a.U, b.U) if sg == 'u' else (a.I, b.I)
    add(H('C16', f"c16_same_width_cmul_{sg}_{a.tag}_{b.tag}_{tag.replace('_', '')}", 'c16_same_width_cmul', f"{max(a.n, b.n, 8) + 3}, {A}, {a.digit}, {a.n}, {B}, {b.digit}, {b.n}, {a.bytes}, [{', '.join(hex(v) for v in yb)}]",
          tier=tier, cap=1800, inst=f"{a.label} vs {b.label}", core=False, mem_gb=10, funcs='equal width, two digit types: mul / div / rem with one concrete operand',
          bound=f'all values of the other operand; concrete operand {tag}'))
for sg in ('u', 'i'):
    for a, b, L, tier in ((I(8, 1), I(8, 2), 5, 'quick'), (I(8, 2), I(16, 1), 4, 'thorough'), (I(8, 1), I(64, 1), 5, 'thorough')):
        A, B = (a.U, b.U) if sg == 'u' else (a.I, b.I)
        add(H('C16', f"c16_parse_{sg}_{a.tag}_{b.tag}", 'c16_parse', f"{L + 2}, {A}, {a.digit}, {a.n}, {B}, {b.digit}, {b.n}, {L}", tier=tier, cap=3600, core=False, mem_gb=8,
              inst=f"{a.label} vs {b.label}", funcs='decimal from_str_radix commutes with extension / is independent of the digit type', bound=f'all ASCII strings of length 0..={L}'))
    c16_pair('c16_same_width_mul', I(8, 4), I(32, 1), sg, 'thorough', extra=', any_alpha', cap=7200, core=False, label='equal width 32: mul/div/rem/pow, u8 digits over the boundary alphabet')
for a, b, R, maxd, tier in ((I(8, 2), I(16, 1), 256, 2, 'quick'), (I(8, 2), I(16, 1), 16, 4, 'quick'), (I(8, 2), I(8, 3), 256, 2, 'quick'), (I(8, 2), I(16, 1), 10, 5, 'thorough'),
                            (I(8, 4), I(32, 1), 256, 4, 'thorough'), (I(8, 2), I(64, 1), 256, 2, 'thorough')):
    add(H('C16', f"c16_radix_same_{a.tag}_{b.tag}_r{R}", 'c16_radix_same', f"{max(maxd, a.bytes, b.bytes) + 3}, {a.U}, {a.digit}, {a.n}, {b.U}, {b.digit}, {b.n}, {R}, {maxd}", tier=tier, cap=3600,
          core=False, mem_gb=12, inst=f"{a.label} vs {b.label}", funcs='to_radix_le is independent of the digit type / commutes with extension', bound=f'all values, radix {R}'))
for tier, insts in (('quick', LIN_Q), ('thorough', LIN_T + [I(64, 17), I(8, 40)])):
    for i in insts:
        add(H('C16', f"c16_consts_{i.tag}", 'c16_consts', f"{i.n + 2}, {i.std().rsplit(',', 1)[0]}", tier=tier, inst=i.label,
              funcs='BITS, BYTES, MIN, MAX, ZERO, ONE..TEN, NEG_ONE..NEG_TEN', bound='no symbolic input: constants evaluated inside the harness'))
add(H('C16', 'c16_aliases', 'c16_aliases', '4', inst='U128..U8192 / I128..I8192', funcs='type aliases have the named widths', bound='no symbolic input'))


# ---------------------------------------------------------------- C12
C12_KINDS = {'b': ('Binary', 1, 'false', "b'b'", 'dm_b'), 'x': ('LowerHex', 4, 'false', "b'x'", 'dm_x'), 'X': ('UpperHex', 4, 'true', "b'x'", 'dm_ux'),
             'o': ('Octal', 3, 'false', "b'o'", None)}
# format-flag variants: (flags, width, plus, alt, zero, fill, align code)
C12_FLAGS = [('', 'None', 'false', 'false', 'false', "' '", 0),
             ('+#012', 'Some(12)', 'true', 'true', 'true', "' '", 0),
             ('*<9', 'Some(9)', 'false', 'false', 'false', "'*'", 1),
             ('_^+#7', 'Some(7)', 'true', 'true', 'false', "'_'", 2),
             ('>#20', 'Some(20)', 'false', 'true', 'false', "' '", 3),
             ('+', 'None', 'true', 'false', 'false', "' '", 0)]
C12_FW = [0, 12, 9, 7, 20, 0]
C12_PAD = 'kani::stub(core::fmt::Formatter::pad_integral, crate::c12::pad_integral_model)'


def _cap(n):
    for c in (8, 16, 24, 32, 48, 64, 128, 192, 320):
        if n <= c:
            return c
    raise ValueError(n)


def c12_radix(i, sg, kind, fv, tier, cap=900, core=False, gen='any'):
    tr, lg, up, pc, dm = C12_KINDS[kind]
    T = i.U if sg == 'u' else i.I
    maxlen = -(-i.bits // lg)
    stubs = [C12_PAD]
    if not dm:
        stubs += [f"kani::stub(bnum::{DIG[i.digit][2]}::to_str_radix, crate::c12::tsr_{i.digit})"]
    if dm:
        stubs += [f'kani::stub(std::string::String::new, crate::c12::cap{_cap(maxlen)})', f'kani::stub(<{i.digit} as core::fmt::{tr}>::fmt, crate::c12::{dm}_{i.digit})', f'kani::stub(<u128 as core::fmt::{tr}>::fmt, crate::c12::{dm}_u128)']
    unw = max(maxlen, -(-i.dbits // lg) if dm else 0, i.n, 16) + 3
    add(H('C12', f"c12_{ {'b': 'bin', 'x': 'lhex', 'X': 'uhex', 'o': 'oct'}[kind]}_{sg}_{i.tag}" + ('' if gen == 'any' else '_alpha'), 'c12_radix',
          f"{unw}, {T}, {i.digit}, {i.n}, {lg}, {up}, {pc}, {maxlen}, \"{kind}\", core::fmt::{tr}, {gen}, [{', '.join(stubs)}]",
          tier=tier, cap=cap, inst=i.label, stub=True, core=core, mem_gb=(8 if tier == 'quick' or (i.bits <= 128 and maxlen <= 64) else 24),
          funcs=f"{'BUint' if sg == 'u' else 'BInt'} core::fmt::{tr}",
          bound=('all values' if gen == 'any' else 'every digit over the boundary alphabet') + f'; all formatter options (width None / 0..=16, ASCII fill, alignment, +, #, 0 symbolic); symbolic character index; the (sign, prefix, numeral) triple handed to pad_integral + option pass-through; unwind {unw}'))


def c12_dec(i, sg, kind, fv, tier, cap=1800, core=False):
    T = i.U if sg == 'u' else i.I
    ch, tr = {0: ('', 'Display'), 1: ('?', 'Debug'), 2: ('e', 'LowerExp'), 3: ('E', 'UpperExp')}[kind]
    nd = len(str(2 ** i.bits - 1))
    stubs = [C12_PAD, f"kani::stub(bnum::{DIG[i.digit][2]}::to_str_radix, crate::c12::tsr_{i.digit})"]
    if kind >= 2:
        stubs.append('kani::stub(core::str::slice_error_fail_rt, crate::c12::slice_error_fail_stub)')
        stubs.append('kani::stub(core::result::unwrap_failed, crate::c12::unwrap_failed_stub)')
    add(H('C12', f"c12_{tr.lower()}_{sg}_{i.tag}", 'c12_dec', f"{(max(nd + 6, 16) + 3) if kind < 2 else nd + 6}, {T}, {i.digit}, {i.n}, {nd}, {kind}, \"{ch}\", core::fmt::{tr}, [{', '.join(stubs)}]",
          tier=tier, cap=cap, inst=i.label, stub=True, core=core, mem_gb=12,
          funcs=f"{'BUint' if sg == 'u' else 'BInt'} core::fmt::{tr}",
          bound='all values; all formatter options (width None / 0..=16, ASCII fill, alignment, +, #, 0 symbolic); symbolic character index; the (sign, prefix, numeral) triple handed to pad_integral + option pass-through'))


for i, sg, kind, fv, tier in ((I(8, 2), 'u', 'x', 1, 'quick'), (I(8, 3), 'i', 'x', 2, 'quick'), (I(16, 2), 'u', 'x', 3, 'quick'), (I(32, 2), 'i', 'x', 1, 'quick'), (I(64, 2), 'u', 'x', 4, 'quick'),
                              (I(64, 1), 'i', 'x', 0, 'quick'), (I(16, 1), 'u', 'x', 5, 'quick'), (I(64, 3), 'i', 'x', 5, 'quick'),
                              (I(8, 2), 'i', 'X', 3, 'quick'), (I(16, 2), 'i', 'X', 1, 'quick'), (I(64, 2), 'i', 'X', 2, 'thorough'), (I(32, 1), 'u', 'X', 0, 'quick'), (I(8, 3), 'u', 'X', 5, 'quick'),
                              (I(8, 1), 'u', 'b', 1, 'quick'), (I(8, 1), 'i', 'b', 2, 'quick'), (I(8, 2), 'u', 'b', 3, 'quick'), (I(16, 1), 'i', 'b', 0, 'quick'), (I(8, 3), 'i', 'b', 5, 'thorough'),
                              (I(8, 1), 'u', 'o', 1, 'quick'), (I(8, 1), 'i', 'o', 3, 'quick'), (I(8, 2), 'u', 'o', 5, 'quick'),
                              (I(8, 4), 'u', 'x', 0, 'thorough'), (I(8, 5), 'i', 'x', 1, 'thorough'), (I(16, 3), 'u', 'x', 2, 'thorough'), (I(32, 3), 'u', 'x', 3, 'thorough'), (I(64, 3), 'u', 'x', 1, 'thorough'),
                              (I(64, 3), 'i', 'X', 4, 'thorough'), (I(32, 2), 'u', 'X', 2, 'thorough'), (I(8, 17), 'i', 'X', 5, 'thorough'), (I(16, 9), 'u', 'x', 0, 'thorough'), (I(32, 5), 'i', 'x', 3, 'thorough'),
                              (I(8, 3), 'u', 'b', 1, 'thorough'), (I(16, 2), 'u', 'b', 2, 'thorough'), (I(32, 1), 'u', 'b', 3, 'thorough'), (I(64, 1), 'i', 'b', 1, 'thorough'), (I(32, 2), 'i', 'b', 0, 'thorough'),
                              (I(64, 2), 'u', 'b', 4, 'thorough'), (I(8, 2), 'i', 'b', 1, 'thorough'),
                              (I(16, 1), 'i', 'o', 1, 'thorough'), (I(32, 1), 'u', 'o', 2, 'thorough'), (I(64, 1), 'i', 'o', 0, 'thorough')):
    if not any(h.name == f"c12_{ {'b': 'bin', 'x': 'lhex', 'X': 'uhex', 'o': 'oct'}[kind]}_{sg}_{i.tag}" for h in REG):
        c12_radix(i, sg, kind, fv, tier, cap=900 if tier == 'quick' else 3600, core=(tier == 'quick' and i.bits <= 64))
for i, sg, kind, fv, tier in ((I(8, 1), 'u', 0, 1, 'quick'), (I(8, 1), 'i', 0, 3, 'quick'), (I(8, 1), 'u', 1, 2, 'quick'), (I(8, 1), 'i', 1, 5, 'thorough'), (I(8, 2), 'i', 0, 5, 'quick'),
                              (I(16, 1), 'u', 0, 2, 'quick'),
                              (I(8, 1), 'u', 2, 0, 'thorough'), (I(8, 1), 'i', 2, 2, 'thorough'), (I(8, 1), 'u', 3, 3, 'thorough'), (I(8, 1), 'i', 3, 5, 'thorough'),
                              (I(32, 1), 'i', 0, 1, 'thorough'), (I(64, 1), 'u', 0, 3, 'thorough'), (I(32, 2), 'i', 1, 0, 'thorough'), (I(8, 2), 'i', 2, 1, 'thorough')):
    if not any(h.name == f"c12_{ {0: 'display', 1: 'debug', 2: 'lowerexp', 3: 'upperexp'}[kind]}_{sg}_{i.tag}" for h in REG):
        c12_dec(i, sg, kind, fv, tier, cap=1800 if tier == 'quick' else 7200, core=(tier == 'quick' and i.bits <= 8))


def by_prop(p):
    return [h for h in REG if h.prop == p]


PROPS = sorted({h.prop for h in REG})

# what lies outside each property's claim / assumptions beyond the common trusted base (evidence + MANIFEST)
OUTSIDE = {
    'C01': ['widths above 320 bits (N beyond the listed instantiations)'],
    'C05': ['widths above 320 bits', 'value of wrapping/overflowing shifts for amounts >= BITS on non-power-of-two widths (only flag/None asserted, as the property states)'],
    'C06': ['widths above 320 bits', 'bit / set_bit / power_of_two with index >= BITS'],
    'C07': ['widths above 320 bits'],
    'C09': ['bnum types outside the 24-type cast set', 'float casts (C14)'],
    'C10': ['strings longer than capacity + 2 characters (10 bytes for radix 2 at 8 bits)', 'full-length strings for widths above 16 bits', 'radices not listed at full length (quick tier: 2, 10, 16, 36 and 2..=36 at length <= 3)'],
    'C13': ['From from a primitive wider than the target (README limitation)', 'known finding F5'],
    'C14': ['int -> float above 192 bits (quick) / for non-u64 digit types above 128 bits'],
    'C15': ['slices for widths above 128 bits', 'big-endian targets'],
    'C19': ['negative non-zero floats into unsigned targets (unconstrained by the property)'],
    'C02': ['exact full-operand products above 16 bits (digit product abstracted as an uninterpreted function there)', 'N > 4'],
    'C03': ['Knuth algorithm D on full operands above 16 bits (boundary alphabet instead)', 'widths above 24 bits in the quick tier'],
    'C04': ['panic message text', 'multiplying / dividing operators above 8 bits (quick tier)'],
    'C08': ['pow with a symbolic base and ilog(base) above 8 bits (quick tier), above 16 bits (thorough tier); above that only pow for the bases +-2^k (all exponents) and ilog for the bases 2^k (values with a concrete top digit) are decided'],
    'C11': ['N >= 2 in the quick tier, N >= 3 in every tier', 'values above 65535 for 32/64-bit digit types'],
    'C12': ['widths above 128 bits (192 thorough)', 'decimal and exponent forms above 8 bits (32 bits thorough)', 'the precision field and the {:x?} / {:X?} flags (not in the property)',
            'the text core::fmt produces from the (sign, prefix, numeral) triple (pad_integral is trusted; its model is validated natively)'],
    'C16': ['decimal parsing / printing across configurations', 'mul/div/pow equivalence above 16 bits outside the boundary alphabet'],
    'C17': ['Mul/Div/Rem operator forms above 8 bits (quick tier)'],
    'C18': ['the value the Newton iteration of sqrt / cbrt / nth_root converges to (only its first step is decided) and the u128 roots of num-integer', 'Integer arithmetic above 8 bits (quick tier)'],
    'C20': ['range sampling with symbolic bounds above 8 bits (quick) / 16 bits (thorough); with concrete bounds: membership up to 192 bits, unbiasedness for small / sparse range sizes at 32 and 64 bits', 'RNG streams with more than 2 consecutive rejections', 'statistical quality of the underlying RNG'],
}
ASSUME = {
    'C01': ['from_digits/from_bits/digits()/to_bits are the identity on the digit array (decided under C13)'],
}

HOOK_COMMITS = ['42da9b2']

# native differential tests of the models that replace core / bnum functions under Kani (run by the driver before the Kani jobs)
NATIVE_VALIDATION = {'C12': 'c12::validate'}

# how many VERIF_SEED-chosen members of each seeded thorough family join the quick tier
SEEDED_EXTRA = {'C11': 3, 'C09': 2, 'C13': 2}

# per-property claim texts for MANIFEST.json
def _claim(what, outside, oracle):
    return dict(
        text=f'Bounded model checking of the compiled bnum code (Kani -> CBMC -> SAT): {what} The SAT solver decides each harness over ALL values of its '
             f'symbolic inputs, so inside a listed instantiation the claim is exhaustive; across configurations it is a finite matrix (digit types u8/u16/u32/u64, '
             f'power-of-two and non-power-of-two widths, signed and unsigned), which is why this is model checking and not proof.',
        note=f'Trusted: Kani MIR->GOTO translation and its core/alloc models, CBMC bit-level semantics of primitive operators, CaDiCaL; oracle: {oracle}. '
             f'Outside the claim: {outside}',
        technique='Kani/CBMC bounded model checking of the real code against an independent oracle (SAT-decided, counterexamples replayed natively)')


CLAIMS = {
    'C01': _claim('every overflowing/checked/wrapping/saturating/strict form of add, sub, neg, abs (+ add_signed/add_unsigned/sub_unsigned, carrying_add, '
                  'borrowing_sub, abs_diff, unsigned_abs, midpoint) equals the projection of the exact result, for 8..320-bit instantiations.',
                  'widths above 320 bits.', 'exact two\'s-complement arithmetic two bytes wider than the type, written byte-wise in the harness'),
    'C05': _claim('shl/shr in all overflow modes (amount over all of u32) and rotate_left/right satisfy the bit-indexed specification for a symbolic bit position, '
                  'for 8..320-bit instantiations including 24/40/48/96/136/192/320-bit widths.',
                  'widths above 320 bits; the value of wrapping/overflowing shifts for amounts >= BITS on non-power-of-two widths (left open by the property).',
                  'bit-indexed specification out[i] = f(in, amount, i) with i symbolic'),
    'C06': _claim('and/or/xor/not, the seven count functions, bit/set_bit, power_of_two, is_power_of_two, checked/wrapping_next_power_of_two, swap_bytes and '
                  'reverse_bits satisfy their bit-indexed / defining-property specifications for 8..320-bit instantiations.',
                  'widths above 320 bits; bit()/set_bit()/power_of_two() with index >= BITS.',
                  'bit-indexed specification; counts by defining property with a symbolic witness index; population count as sum of primitive per-digit counts'),
    'C07': _claim('cmp/eq/ne/lt/le/gt/ge/min/max/clamp in inherent, trait and operator form agree with the sign of the exact difference of the denoted integers; '
                  'equality is digit-array identity; equal values feed identical streams to a recording Hasher; signum/is_positive/is_negative.',
                  'widths above 320 bits (hashing: above 320 bits; only the write stream of core::hash::Hash is observed).',
                  'sign of the exact (N+1)-digit difference'),
    'C09': _claim('As/CastFrom between bnum types of every digit-type combination (wider, narrower, equal, widths that are and are not multiples of the other digit), between '
                  'bnum types and all 12 primitive integers in both directions, from bool and char, and cast_signed/cast_unsigned/to_bits/from_bits satisfy the bit-indexed '
                  '`as` specification out[i] = (i < W_src ? src[i] : sign(src)).',
                  'bnum types outside the 24-type set {U,I} x {D8x1,3,5,9, D16x1,3,5, D32x1,3, D64x1,2,3} (+ D8x17, D64x5 for primitives); float casts are C14.',
                  'bit-indexed specification with a symbolic target bit index'),
    'C10': _claim('from_str_radix / FromStr / parse_bytes / from_radix_be / from_radix_le agree with a reference parser (sign, digit values, exact Horner value, representability, '
                  'error kind) on ALL byte strings up to the stated length for the listed radices, including strings one and two characters longer than the capacity (leading zeros); '
                  'and on all strings of a CONCRETE length equal to the capacity of 64- and 128-bit types (sign / leading zero / one digit too many; first byte concrete).',
                  'strings longer than 10 bytes (radix 2) / capacity + 2; widths above 16 bits in full (32/64-bit types only with 4-character strings); radices other than the listed ones at full length.',
                  'reference parser in the harness, exact u64 Horner evaluation'),
    'C13': _claim('TryFrom (bnum -> 12 primitives), BTryFrom between bnum types across all digit types, From/TryFrom from primitives into targets at least as wide, From<bool/char>, '
                  'from_digit(s)/digits/From<[D;N]> return Ok with the same value exactly when the value is representable.',
                  'bnum types outside the C09 type set; From from a primitive wider than the target (README limitation); known finding F5 (From<uN> for a signed type of equal width).',
                  'representability = all bits above the target value range equal the source sign (loop over the source digits); value by the C09 bit specification'),
    'C14': _claim('CastFrom<f32/f64> for bnum integers satisfies the bit-indexed truncate-and-saturate specification for ALL 2^32 / 2^64 float bit patterns (and equals the primitive `as` + '
                  'saturation for widths <= 128); bnum -> f32/f64 equals the primitive `as` bit for bit for widths <= 128 and a round-to-nearest-even specification for 192-bit u64-digit types.',
                  'int -> float above 128 bits for digit types other than u64 and above 192 bits in the quick tier (320 / 1088 bits in the thorough tier).',
                  'independent IEEE-754 decode + bit-indexed spec; primitive `as` as second oracle'),
    'C15': _claim('from_be_slice / from_le_slice on all byte buffers with every slice length 0..=2*BYTES+2 satisfy the byte-indexed specification (Some exactly when the excess bytes are padding and '
                  'the sign is kept; value bytes; empty slice is zero); to_be/from_be/to_le/from_le on the little-endian target; to/from_{be,le,ne}_bytes (bnum feature `nightly`, second harness crate) are exact inverses producing the two\'s-complement bytes; slices of concrete length around the width for 160- and 320-bit types.',
                  'slices for widths above 128 bits; big-endian targets (to_ne/from_ne and to_be/to_le are checked for the little-endian target this sandbox has).',
                  'byte-indexed specification with symbolic slice length and byte index'),
    'C19': _claim('FromPrimitive::from_{u8..u128,i8..i128,usize,isize} (incl. targets narrower than the source), from_f32/from_f64 over all float bit patterns, ToPrimitive::to_* and '
                  'AsPrimitive::as_ return Some exactly for representable values, with the right value, and never panic.',
                  'widths outside {8, 24, 16, 64, 128} (+ 16/48/32/192/136 thorough); negative non-zero floats into unsigned targets are left unconstrained, as the property does.',
                  'range test on the extended bit pattern; independent IEEE-754 decode for floats'),
    'C02': _claim('overflowing_mul (low half + flag), its checked/wrapping/saturating/strict projections, widening_mul and carrying_mul: exact against the primitive product at 8 and 16 bits; '
                  'at 24 and 128 bits (u8 and u64 digits) for ALL operands with the digit product abstracted as an uninterpreted function constrained only by P<=(B-1)^2, P=0 iff a factor is 0, '
                  'functional consistency and commutativity (bnum\'s private digit::*::carrying_mul/widening_mul replaced via kani::stub); exact arithmetic on boundary-alphabet digits at 32 bits; '
                  'and the real digit kernels of all four digit types against the double-width primitive product (public N=1 API and the verif_hooks wrappers); '
                  'exact (unabstracted) multiplication at 64..192 bits with ONE concrete operand (2^127, 2^64+1, 3, MAX/MIN ...) and the other operand + carry word fully symbolic, against an exact limb product.',
                  'exact full-operand products above 16 bits (covered modulo the abstraction + the kernel checks); N > 4.',
                  'primitive double-width product; sum of abstract digit products over a 2N-digit accumulator'),
    'C03': _claim('/ and % satisfy n = q*d + r, |r| < |d| with the sign rule, and every checked/wrapping/overflowing/saturating/strict/euclid/floor/ceil/next_multiple_of form is derived from that pair '
                  'by exact integer reasoning (incl. the MIN / -1 projections and None for a zero divisor): all operands at 8 bits, the non-Knuth paths at 16 bits (u8 digits), single-digit 16-bit, '
                  'Knuth D on 24-bit operands whose digits range over the boundary alphabet, and Knuth D with a CONCRETE multi-digit divisor and ALL dividends at 32 and 48 bits (u8/u16 digits) and '
                  'at 192 bits (u64 digits, two quotient digits, limb oracle).',
                  'Knuth algorithm D on full operands above 16 bits (8-value alphabet per digit instead); the 16-bit Knuth path, 32/64/128-bit instantiations and the projections above 8 bits are thorough-tier only.',
                  'postcondition in the narrowest primitive holding the products'),
    'C04': _claim('operators + - * / % unary -, << >> with each of the 12 primitive amount types, pow, abs, next_power_of_two, next_multiple_of: in debug mode no panic and the exact value when the '
                  'result is representable / the amount is in 0..BITS, and NO return when it is not (must-panic harness with an unreachable cover); in release mode (debug assertions off, compiled separately) '
                  'no panic and the wrapped value; zero divisor, MIN / -1, MIN % -1, ilog of non-positive / base < 2 and strict_* panic in both modes; checked_* and the non-dividing '
                  'wrapping_/overflowing_/saturating_ methods never panic for unconstrained arguments; * / % with one concrete operand at 128 bits against the exact limb product.',
                  'panic message text; multiplying/dividing operators above 8 bits (16 thorough); shifts by bnum-typed amounts (C17).',
                  'the overflow flag of the overflowing_* twin (whose exactness is C01/C02/C05/C08) and the explicit amount range'),
    'C08': _claim('overflowing/checked/wrapping/saturating/strict pow for all 8-bit bases and exponents over ALL of u32 (signed and unsigned), ilog/ilog2/ilog10 and their checked forms for all 8-bit '
                  '(self, base) pairs, ilog2 as highest-set-bit for 8..320-bit types, and pow for the concrete bases +-2^k with the exponent over all of u32 at 40..192 bits (exponent loop, sticky flag, parity re-signing, landing exactly on MIN).',
                  'pow and ilog(base) above 8 bits in the quick tier (16 bits in the thorough tier).',
                  'independent LSB-first square-and-multiply in exact-with-cap arithmetic; b^k <= x < b^(k+1)'),
    'C11': _claim('to_radix_le/to_radix_be/to_str_radix produce the canonical numeral (digits < radix, no leading zero, [0] for zero, lowercase, Horner value == input, leading - for negatives) and '
                  'round-trip through from_radix_*/from_str_radix, for all 8-bit values at 12 radices (all 255 radices in the thorough tier) for the digit-size-dependent branches of u16/u32/u64 digits, and for 192..320-bit values with a concrete most significant digit in power-of-two radices (both bit-slicing routines).',
                  'N >= 2 (16-bit u8-digit values are thorough-tier only); N >= 3 never; values above 65535 for 32/64-bit digits.',
                  'postcondition + uniqueness of positional notation'),
    'C16': _claim('the same operation in two digit-type representations of the same width (16, 32, 64, 128 bits) gives the same result after an As cast (add/sub/neg/cmp/bitwise/counts/shifts/rotates/'
                  'saturating/casts for all operands; mul/div/rem/pow at 16 bits); zero-/sign-extension into a wider type commutes with add/sub/cmp/shl (and mul/div/rem/pow from 8 to 16 bits) whenever the '
                  'narrow result is representable; mul / div / rem with one concrete operand across digit types at 32, 64 and 128 bits; the associated constants and the aliases U128..I8192 denote the advertised values.',
                  'decimal parsing/printing across configurations (checked per type in C10/C11); mul/div/pow equivalence above 16 bits outside the boundary alphabet.',
                  'the other representation of the same value (miter), As casts verified in C09'),
    'C17': _claim('for every operator trait impl the seven forms (v op v, &v op v, v op &v, &v op &v, op=, op= &, const inherent twin) compute the value of the inherent method and panic exactly when it does; '
                  'Shl/Shr reference and assign forms for the 12 primitive amount types (in-range value, out-of-range panic) and bnum-typed amounts below BITS; Neg/Not; Default; Sum/Product over slices of '
                  'length 0..=3 equal the left fold; BUint op digit equals the full-width operation.',
                  'FromStr (C10) and PartialOrd/Ord (C07) are decided there; Mul/Div/Rem forms above 8 bits are thorough-tier.',
                  'the inherent method on the same operands; overflow flag / zero divisor as panic predicate'),
    'C18': _claim('the num_traits forwarders equal the inherent methods; PrimInt signed/unsigned shifts bit-indexed; Signed; Integer::div_floor/mod_floor/div_rem/divides/is_multiple_of, Euclid, Pow, MulAdd, '
                  'gcd and lcm exact against i32 arithmetic for all 8-bit operands; Roots: degree 1, receivers 0 and 1, the documented panics, and - with the Newton kernel and the u128 roots replaced by uninterpreted stand-ins - '
                  'for ALL values and degrees: every shortcut (bits <= n => 1, delegation below 2^128, sign handling) fires exactly when it is exact; for concrete degrees and 136/192-bit values with a concrete top digit: the initial guess '
                  'and the exact value of the first Newton step, without overflow.',
                  'the value the Newton iteration converges to (second and later steps) and num-integer\'s u128 roots; Integer arithmetic above 8 bits (16 thorough).',
                  'inherent methods; exact i32 arithmetic; Euclid\'s algorithm'),
    'C20': _claim('with a symbolic RNG stream: gen_range / Uniform::sample / sample_single(_inclusive) stay inside the requested range for all bounds (8-bit types); the accepted RNG words are unbiased - '
                  'a relational two-run query shows that word L(h)+k is accepted with offset h for one offset iff it is for every other offset, hence every value has the same number of preimages; '
                  'Standard and Fill/try_fill_slice take every byte of every digit from the stream in little-endian order (8..128 bits); range membership for concrete bounds on 24..128-bit types with a symbolic stream.',
                  'sampling above 8 bits in the quick tier (16 bits thorough; the range multiplication is a full multiplier); streams with more than 2 consecutive rejections; statistical quality of the RNG.',
                  'order comparison on exact integers; L(h) = ceil(h*2^W/R) computed in the harness'),
}
CLAIMS['C12'] = dict(
    text='Bounded model checking of the compiled bnum formatting impls (Kani -> CBMC -> SAT), decomposed at Formatter::pad_integral: for ALL values of the listed '
         'instantiations every Binary / LowerHex / UpperHex / Octal / Display / Debug / LowerExp / UpperExp impl (unsigned and signed) ends in exactly one call '
         'pad_integral(is_nonnegative, prefix, numeral) whose triple equals an independent oracle (bit slicing of the two\'s-complement pattern for the radix forms; '
         'decimal digits, sign and d.ddde<k> with trimmed zeros for the decimal and exponent forms), with the caller\'s Formatter options (width, fill, alignment, +, #, 0) '
         'reaching pad_integral unchanged and nothing else written to the Formatter. Because pad_integral is the single core function that applies the flags - the '
         'primitive impls end in the same call - equal triples give equal text for EVERY flag combination. Radix forms: 8..128 bits, all four digit types with N = 1, 2, 3 '
         '(digit-by-digit assembly with interior zero padding); decimal / exponent / octal forms: 8-bit values (16/32-bit in the thorough tier). This is a finite matrix of '
         'instantiations decided exhaustively per instantiation, hence model checking and not proof.',
    note='Trusted: Kani MIR->GOTO translation, CBMC, CaDiCaL; core::fmt::Formatter::pad_integral itself (it is "what Rust prints"); three stub models, each validated '
         'natively against the real function on every run before the Kani jobs: pad_integral (recorder + ASCII model, 107 000 flag/width/fill/alignment combinations), the '
         'digit formatters <u8..u64 as Binary/LowerHex/UpperHex>::fmt for the two option sets bnum uses (all u8/u16 values, 40 000 sampled u32/u64 values, every pad width), and '
         'BUint::to_str_radix for the decimal/octal/exponent harnesses (decided on its own under C11). String::new is replaced by String::with_capacity (not observable). '
         'Outside the claim: widths above 128 bits (192 bits thorough); decimal/exponent forms above 8 bits (32 thorough); precision and the {:x?} debug-hex flags (not part of the property); '
         'the text core produces from the triple is not re-verified.',
    technique='Kani/CBMC bounded model checking of the real formatting code with Formatter::pad_integral stubbed by a recording model (SAT-decided for all values; stub models validated natively; counterexamples replayed natively against the unstubbed code)',
    ref='DESIGN.md section 11')

NOT_APPLICABLE = {f'C{n:02d}': 'check not built yet in this revision of /verif (work in progress)' for n in range(1, 21)}
