//! C18 - num_traits / num_integer implementations honour the trait contracts (feature `numtraits`).
//! Forwarders are compared with the inherent methods; Integer::{div_floor, mod_floor, div_rem, gcd, lcm} against
//! exact i32 arithmetic at 8 / 16 bits; PrimInt shifts bit-indexed.

/// linear-cost forwarders, any width.  $T generic over signedness.
#[macro_export]
macro_rules! c18_forward_lin {
    ($name:ident, $unw:expr, $T:ty, $D:ty, $N:expr) => {
        $crate::harness!($name, $unw, {
            use $crate::util::*;
            use num_traits::*;
            use num_traits::ops::overflowing::{OverflowingAdd, OverflowingSub};
            use num_integer::Integer;
            const BITS: u32 = <$D>::BITS * $N;
            let (a, ad) = <$T as BN<$D, $N>>::any();
            let (b, _) = <$T as BN<$D, $N>>::any();
            let s: u32 = $crate::nd::nd();
            let od = |o: Option<$T>| o.map(|v| v.dg());
            let oeq = |x: Option<[$D; $N]>, y: Option<[$D; $N]>| match (x, y) { (Some(p), Some(q)) => deq(&p, &q), (None, None) => true, _ => false };
            assert!(oeq(od(CheckedAdd::checked_add(&a, &b)), od(a.checked_add(b))) && oeq(od(CheckedSub::checked_sub(&a, &b)), od(a.checked_sub(b))), "CheckedAdd / CheckedSub");
            assert!(oeq(od(CheckedNeg::checked_neg(&a)), od(a.checked_neg())), "CheckedNeg");
            assert!(oeq(od(CheckedShl::checked_shl(&a, s)), od(a.checked_shl(s))) && oeq(od(CheckedShr::checked_shr(&a, s)), od(a.checked_shr(s))), "CheckedShl / CheckedShr");
            assert!(deq(&SaturatingAdd::saturating_add(&a, &b).dg(), &a.saturating_add(b).dg()) && deq(&SaturatingSub::saturating_sub(&a, &b).dg(), &a.saturating_sub(b).dg()), "SaturatingAdd / SaturatingSub");
            assert!(deq(&Saturating::saturating_add(a, b).dg(), &a.saturating_add(b).dg()) && deq(&Saturating::saturating_sub(a, b).dg(), &a.saturating_sub(b).dg()), "Saturating");
            assert!(deq(&WrappingAdd::wrapping_add(&a, &b).dg(), &a.wrapping_add(b).dg()) && deq(&WrappingSub::wrapping_sub(&a, &b).dg(), &a.wrapping_sub(b).dg()), "WrappingAdd / WrappingSub");
            assert!(deq(&WrappingNeg::wrapping_neg(&a).dg(), &a.wrapping_neg().dg()), "WrappingNeg");
            assert!(deq(&WrappingShl::wrapping_shl(&a, s).dg(), &a.wrapping_shl(s).dg()) && deq(&WrappingShr::wrapping_shr(&a, s).dg(), &a.wrapping_shr(s).dg()), "WrappingShl / WrappingShr");
            let (v, f) = OverflowingAdd::overflowing_add(&a, &b); let (v2, f2) = a.overflowing_add(b);
            assert!(deq(&v.dg(), &v2.dg()) && f == f2, "OverflowingAdd");
            let (v, f) = OverflowingSub::overflowing_sub(&a, &b); let (v2, f2) = a.overflowing_sub(b);
            assert!(deq(&v.dg(), &v2.dg()) && f == f2, "OverflowingSub");
            assert!(deq(&<$T as Bounded>::min_value().dg(), &<$T>::MIN.dg()) && deq(&<$T as Bounded>::max_value().dg(), &<$T>::MAX.dg()), "Bounded");
            assert!(<$T as Zero>::zero().is_zero() && Zero::is_zero(&a) == dzero(&ad) && One::is_one(&a) == a.is_one() && deq(&<$T as One>::one().dg(), &<$T>::ONE.dg()), "Zero / One");
            assert!(Integer::is_even(&a) == (ad[0].to_u64() & 1 == 0) && Integer::is_odd(&a) == (ad[0].to_u64() & 1 == 1), "is_even / is_odd");
            assert!(PrimInt::count_ones(a) == a.count_ones() && PrimInt::count_zeros(a) == a.count_zeros() && PrimInt::leading_zeros(a) == a.leading_zeros()
                && PrimInt::trailing_zeros(a) == a.trailing_zeros() && PrimInt::leading_ones(a) == a.leading_ones() && PrimInt::trailing_ones(a) == a.trailing_ones(), "PrimInt counts");
            assert!(deq(&PrimInt::rotate_left(a, s).dg(), &a.rotate_left(s).dg()) && deq(&PrimInt::rotate_right(a, s).dg(), &a.rotate_right(s).dg())
                && deq(&PrimInt::swap_bytes(a).dg(), &a.swap_bytes().dg()) && deq(&PrimInt::reverse_bits(a).dg(), &a.reverse_bits().dg()), "PrimInt rotate / swap_bytes / reverse_bits");
            assert!(deq(&<$T as PrimInt>::from_be(a).dg(), &<$T>::from_be(a).dg()) && deq(&PrimInt::to_le(a).dg(), &a.to_le().dg()), "PrimInt endian");
            // PrimInt::{signed,unsigned}_{shl,shr}: bit-indexed, amount below BITS
            let i: u32 = $crate::nd::nd();
            $crate::nd::assume(i < BITS && s < BITS);
            let sign = dneg(&ad);
            let shl_bit = i >= s && dbit(&ad, i - s);
            assert!(dbit(&PrimInt::signed_shl(a, s).dg(), i) == shl_bit && dbit(&PrimInt::unsigned_shl(a, s).dg(), i) == shl_bit, "signed_shl / unsigned_shl");
            assert!(dbit(&PrimInt::signed_shr(a, s).dg(), i) == if i + s < BITS { dbit(&ad, i + s) } else { sign }, "signed_shr is arithmetic");
            assert!(dbit(&PrimInt::unsigned_shr(a, s).dg(), i) == (i + s < BITS && dbit(&ad, i + s)), "unsigned_shr is logical");
            $crate::reach!(sign && s > 0 && i + s >= BITS, "sign fill");
        });
    };
}

/// Signed trait (signed types only)
#[macro_export]
macro_rules! c18_signed {
    ($name:ident, $unw:expr, $I:ty, $D:ty, $N:expr) => {
        $crate::harness!($name, $unw, {
            use $crate::util::*;
            use num_traits::Signed;
            const M: usize = $N + 1;
            let (a, ad) = <$I as BN<$D, $N>>::any();
            let (b, bd) = <$I as BN<$D, $N>>::any();
            assert!(Signed::is_negative(&a) == dneg(&ad) && Signed::is_positive(&a) == (!dneg(&ad) && !dzero(&ad)), "is_negative / is_positive");
            assert!(deq(&Signed::signum(&a).dg(), &a.signum().dg()), "signum");
            if !is_min_s(&ad) { assert!(deq(&Signed::abs(&a).dg(), &XD::<$D, M>::from_s(&ad).abs().low::<$N>()), "abs"); }
            // abs_sub: max(a - b, 0) when representable
            let diff = XD::<$D, M>::from_s(&ad).sub(&XD::<$D, M>::from_s(&bd));
            if diff.is_neg() || diff.is_zero() { assert!(Signed::abs_sub(&a, &b).is_zero(), "abs_sub is zero for a <= b"); }
            else if diff.fits_s() { assert!(deq(&Signed::abs_sub(&a, &b).dg(), &diff.low::<$N>()), "abs_sub is a - b for a > b"); }
            $crate::reach!(diff.fits_s() && !diff.is_neg() && !diff.is_zero() && dneg(&bd), "a > b, b negative");
        });
    };
}

/// multiplying / dividing forwarders and the Integer contract, exact against i32 arithmetic (W <= 16 bits)
#[macro_export]
macro_rules! c18_integer {
    ($name:ident, $unw:expr, $T:ty, $D:ty, $N:expr) => {
        $crate::harness!($name, $unw, {
            use $crate::util::*;
            use num_traits::*;
            use num_integer::Integer;
            const W: u32 = <$D>::BITS * $N;
            const S: bool = <$T as BN<$D, $N>>::SIGNED;
            let (a, ad) = <$T as BN<$D, $N>>::any();
            let (b, bd) = <$T as BN<$D, $N>>::any();
            let val = |d: &[$D; $N]| if S { dval_i128(d) as i32 } else { dval_u128(d) as i32 };
            let (x, y) = (val(&ad), val(&bd));
            let (lo, hi) = if S { (-(1i32 << (W - 1)), (1i32 << (W - 1)) - 1) } else { (0, (1i32 << W) - 1) };
            let fits = |v: i32| v >= lo && v <= hi;
            let od = |o: Option<$T>| o.map(|v| val(&v.dg()));
            assert!(od(CheckedMul::checked_mul(&a, &b)) == od(a.checked_mul(b)) && od(CheckedDiv::checked_div(&a, &b)) == od(a.checked_div(b))
                && od(CheckedRem::checked_rem(&a, &b)) == od(a.checked_rem(b)), "CheckedMul / CheckedDiv / CheckedRem");
            assert!(od(CheckedEuclid::checked_div_euclid(&a, &b)) == od(a.checked_div_euclid(b)) && od(CheckedEuclid::checked_rem_euclid(&a, &b)) == od(a.checked_rem_euclid(b)), "CheckedEuclid");
            assert!(val(&SaturatingMul::saturating_mul(&a, &b).dg()) == val(&a.saturating_mul(b).dg()) && val(&WrappingMul::wrapping_mul(&a, &b).dg()) == val(&a.wrapping_mul(b).dg()), "SaturatingMul / WrappingMul");
            let e: u32 = $crate::nd::nd();
            $crate::nd::assume(e < 4);
            if let Some(p) = a.checked_pow(e) { assert!(val(&Pow::pow(a, e).dg()) == val(&p.dg()), "Pow"); }
            let (c, cd) = <$T as BN<$D, $N>>::any();
            let ma = x * y + val(&cd); // |x*y| < 2^30: exact
            if fits(x * y) && fits(ma) { assert!(val(&MulAdd::mul_add(a, b, c).dg()) == ma, "MulAdd"); }
            if y != 0 && !(S && x == lo && y == -1) {
                assert!(val(&Euclid::div_euclid(&a, &b).dg()) == val(&a.div_euclid(b).dg()) && val(&Euclid::rem_euclid(&a, &b).dg()) == val(&a.rem_euclid(b).dg()), "Euclid");
                // truncating pair
                let (q, r) = (x / y, x % y);
                let (dq, dr) = Integer::div_rem(&a, &b);
                assert!(val(&dq.dg()) == q && val(&dr.dg()) == r, "div_rem truncates");
                // floor pair: remainder takes the divisor's sign
                let adj = r != 0 && ((r < 0) != (y < 0));
                let (fq, fr) = if adj { (q - 1, r + y) } else { (q, r) };
                assert!(val(&Integer::div_floor(&a, &b).dg()) == fq, "div_floor rounds toward negative infinity");
                assert!(val(&Integer::mod_floor(&a, &b).dg()) == fr, "mod_floor takes the sign of the divisor");
                assert!(Integer::is_multiple_of(&a, &b) == (r == 0) && Integer::divides(&a, &b) == (r == 0), "is_multiple_of / divides");
                $crate::reach!(!S || (adj && x < 0), "floor differs from truncation");
            }
        });
    };
}

/// roots: only the arithmetic-free clauses are within reach (see DESIGN): degree 1, values 0 / 1, and the panics
#[macro_export]
macro_rules! c18_roots_trivial {
    ($name:ident, $unw:expr, $U:ty, $I:ty, $D:ty, $N:expr) => {
        $crate::harness!($name, $unw, {
            use $crate::util::*;
            use num_integer::Roots;
            let (u, ud) = <$U as BN<$D, $N>>::any();
            let s = <$I>::from_bits(u);
            assert!(deq(&Roots::nth_root(&u, 1).dg(), &ud) && deq(&Roots::nth_root(&s, 1).dg(), &ud), "nth_root(1) is the identity");
            // roots of the constants 0 and 1 for every degree >= 1 (concrete receivers keep the Newton iteration out of the formula)
            let n: u32 = $crate::nd::nd();
            $crate::nd::assume(n >= 1);
            assert!(Roots::sqrt(&<$U>::ZERO).is_zero() && Roots::cbrt(&<$U>::ZERO).is_zero() && Roots::nth_root(&<$U>::ZERO, n).is_zero(), "roots of 0");
            assert!(Roots::sqrt(&<$U>::ONE).is_one() && Roots::cbrt(&<$U>::ONE).is_one() && Roots::nth_root(&<$U>::ONE, n).is_one(), "roots of 1");
            assert!(Roots::sqrt(&<$I>::ZERO).is_zero() && Roots::cbrt(&<$I>::ZERO).is_zero() && Roots::nth_root(&<$I>::ZERO, n).is_zero(), "signed roots of 0");
            assert!(Roots::sqrt(&<$I>::ONE).is_one() && Roots::cbrt(&<$I>::ONE).is_one() && Roots::nth_root(&<$I>::ONE, n).is_one(), "signed roots of 1");
            $crate::reach!(n > 1000, "large degree");
        });
    };
}

#[macro_export]
macro_rules! c18_roots_panic {
    ($name:ident, $unw:expr, $U:ty, $I:ty, $D:ty, $N:expr) => {
        $crate::panic_harness!($name, $unw, {
            use $crate::util::*;
            use num_integer::Roots;
            let (u, _) = <$U as BN<$D, $N>>::any();
            let s = <$I>::from_bits(u);
            let sel: u8 = $crate::nd::nd();
            $crate::nd::assume(sel < 8);
            $crate::reach!(sel == 0, "zeroth root"); $crate::reach!(sel == 3, "sqrt of MIN"); $crate::reach!(sel == 7, "even root of -1");
            match sel {
                0 => { let _ = Roots::nth_root(&u, 0); }
                1 => { let _ = Roots::nth_root(&s, 0); }
                2 => { let _ = Roots::sqrt(&<$I>::NEG_ONE); }
                3 => { let _ = Roots::sqrt(&<$I>::MIN); }
                4 => { let _ = Roots::nth_root(&<$I>::NEG_ONE, 2); }
                5 => { let _ = Roots::nth_root(&<$I>::MIN, 4); }
                6 => { let _ = Roots::nth_root(&<$I>::NEG_TEN, 100); }
                _ => { let _ = Roots::nth_root(&<$I>::NEG_ONE, u32::MAX - 1); }
            }
            $crate::noreturn!("root of an invalid argument returned");
        });
    };
}

/// gcd / lcm against Euclid ($steps iterations suffice for W bits)
#[macro_export]
macro_rules! c18_gcd {
    ($name:ident, $unw:expr, $T:ty, $D:ty, $N:expr, $steps:expr) => {
        $crate::harness!($name, $unw, {
            use $crate::util::*;
            use num_integer::Integer;
            const W: u32 = <$D>::BITS * $N;
            const S: bool = <$T as BN<$D, $N>>::SIGNED;
            let (a, ad) = <$T as BN<$D, $N>>::any();
            let (b, bd) = <$T as BN<$D, $N>>::any();
            let val = |d: &[$D; $N]| if S { dval_i128(d) as i32 } else { dval_u128(d) as i32 };
            let (x, y) = (val(&ad), val(&bd));
            let (lo, hi) = if S { (-(1i32 << (W - 1)), (1i32 << (W - 1)) - 1) } else { (0, (1i32 << W) - 1) };
            let fits = |v: i32| v >= lo && v <= hi;
            // gcd by Euclid ($steps iterations suffice for W bits), lcm = |x / g * y|
            let (mut g, mut h) = (if x < 0 { -x } else { x }, if y < 0 { -y } else { y });
            let mut k = 0;
            while k < $steps { if h != 0 { let t = g % h; g = h; h = t; } k += 1; }
            assert!(h == 0, "oracle: Euclid finished");
            if fits(g) { assert!(val(&Integer::gcd(&a, &b).dg()) == g, "gcd is the non-negative greatest common divisor"); }
            if x != 0 && y != 0 {
                let l = { let v = x / g * y; if v < 0 { -v } else { v } };
                if fits(l) && fits(x / g * y) { assert!(val(&Integer::lcm(&a, &b).dg()) == l, "lcm is the least common multiple"); }
            } else {
                assert!(Integer::lcm(&a, &b).is_zero(), "lcm with zero is zero");
            }
            $crate::reach!(g > 1 && x != y && x != 0 && y != 0, "non-trivial gcd");
        });
    };
}

// ------------------------------------------------------------------------------------------------ roots: shortcut exactness
// The Newton iteration (`fixpoint`, private) and num-integer's u128 roots are out of the solver's reach (DESIGN 10.2 item 7), but the code
// AROUND them is not: degree dispatch, the zero/one and `bits <= n => 1` shortcuts, the delegation to the u128 implementation below 2^128,
// the sign handling of the signed wrappers.  Both kernels are replaced by uninterpreted stand-ins: `fixpoint` returns a MARKER value that
// no shortcut can produce, the u128 roots return an injective-looking function of their arguments.  Decided for ALL values and ALL degrees:
// a shortcut fires exactly when it is exact (result 1 iff 2 <= v < 2^n), everything else reaches the kernel with the right arguments.

pub const ROOT_MARK64: u64 = 0x5a5a_5a5a_5a5a_5a5a;
macro_rules! fixpoint_stub {
    ($name:ident, $U:ident, $D:ty) => {
        pub fn $name<const N: usize, F: Fn(bnum::$U<N>) -> bnum::$U<N>>(_s: bnum::$U<N>, _max_bits: u32, _f: F) -> bnum::$U<N> {
            bnum::$U::<N>::from_digits([ROOT_MARK64 as $D; N])
        }
    };
}
fixpoint_stub!(fixpoint_stub_u8, BUintD8, u8);
fixpoint_stub!(fixpoint_stub_u16, BUintD16, u16);
fixpoint_stub!(fixpoint_stub_u32, BUintD32, u32);
fixpoint_stub!(fixpoint_stub_u64, BUint, u64);
pub fn u128_sqrt_stub(x: &u128) -> u128 { (*x >> 1) ^ 0x1111 }
pub fn u128_cbrt_stub(x: &u128) -> u128 { (*x >> 1) ^ 0x2222 }
pub fn u128_nth_root_stub(x: &u128, n: u32) -> u128 { (*x >> 1) ^ 0x4444 ^ ((n as u128) << 64) }

#[macro_export]
macro_rules! c18_roots_shortcut {
    ($name:ident, $unw:expr, $U:ty, $I:ty, $D:ty, $N:expr, $UW:ty, [$($stub:meta),*]) => {
        $crate::harness_stub!($name, $unw, [$($stub),*], {
            use $crate::util::*;
            use num_integer::Roots;
            const DB: u32 = <$D>::BITS;
            let (u, ud) = <$U as BN<$D, $N>>::any();
            let n: u32 = $crate::nd::nd();
            $crate::nd::assume(n >= 1);
            let signed: bool = $crate::nd::nd();
            let neg = signed && dneg(&ud);
            $crate::nd::assume(!(neg && n % 2 == 0));
            // magnitude whose root is taken
            let md: [$D; $N] = if neg { XD::<$D, { $N + 1 }>::from_s(&ud).neg().low() } else { ud };
            let mut bits = 0u32;
            let mut k = 0;
            while k < $N { if md[k] != 0 { bits = k as u32 * DB + (DB - md[k].leading_zeros()); } k += 1; }
            let r: [$D; $N] = if signed { Roots::nth_root(&<$I>::from_bits(u), n).dg() } else { Roots::nth_root(&u, n).dg() };
            #[cfg(kani)]
            {
                let mark: [$D; $N] = [$crate::c18::ROOT_MARK64 as $D; $N];
                // expected result of the unsigned kernel on the magnitude
                let e: [$D; $N] = if n == 1 || bits <= 1 {
                    md
                } else if bits <= 128 {
                    let mut v: u128 = 0;
                    let mut k = 0;
                    while k < $N { if (k as u32) * DB < 128 { v |= (md[k] as u128) << (k as u32 * DB); } k += 1; }
                    let s = if n == 2 { $crate::c18::u128_sqrt_stub(&v) } else if n == 3 { $crate::c18::u128_cbrt_stub(&v) } else { $crate::c18::u128_nth_root_stub(&v, n) };
                    let mut o = [0 as $D; $N];
                    let mut k = 0;
                    while k < $N { if (k as u32) * DB < 128 { o[k] = (s >> (k as u32 * DB)) as $D; } k += 1; }
                    o
                } else if n >= 4 && bits <= n {
                    let mut o = [0 as $D; $N];
                    o[0] = 1;
                    o
                } else {
                    mark
                };
                let want: [$D; $N] = if neg && n != 1 { XD::<$D, { $N + 1 }>::from_u(&e).neg().low() } else if neg { ud } else { e };
                assert!(deq(&r, &want), "nth_root: a shortcut fires exactly when it is exact; otherwise the kernel is reached with the value and the degree");
                $crate::reach!(bits > 128 && n >= 4 && bits <= n, "bits <= n shortcut above 2^128");
                $crate::reach!(bits > 128 && n >= 4 && bits - 1 == n, "first degree below the shortcut");
                $crate::reach!(bits > 128 && n == 2, "wide sqrt");
                $crate::reach!(bits <= 128 && bits > 1 && n > 3, "delegation to u128");
                $crate::reach!(neg && n > 1, "negative odd root");
            }
            #[cfg(not(kani))]
            {
                // replay against the real kernels: r is the integer root of the magnitude, with the sign of the argument
                let rm: [$D; $N] = if neg { XD::<$D, { $N + 1 }>::from_s(&r).neg().low() } else { r };
                if neg { assert!(dneg(&r) || dzero(&r), "sign preserved for odd degree"); }
                let w = <$UW as bnum::cast::CastFrom<$U>>::cast_from(<$U as BN<$D, $N>>::mk(md));
                let rw = <$UW as bnum::cast::CastFrom<$U>>::cast_from(<$U as BN<$D, $N>>::mk(rm));
                let lo_ok = match rw.checked_pow(n) { Some(p) => p <= w, None => false };
                let hi_ok = match (rw + <$UW>::ONE).checked_pow(n) { Some(p) => p > w, None => true };
                assert!(lo_ok && hi_ok, "r^n <= |x| < (r+1)^n");
            }
        });
    };
}

// First Newton step: `fixpoint` is replaced by a stand-in that evaluates the iteration function ONCE, on the initial guess, and returns the marker.
// For a concrete degree and values of full bit length the guess 2^(BITS/n + 1) is a constant, so `guess^(n-1)` (which exceeds the width for
// large degrees - known finding F6) is evaluated by constant propagation and the division is a division by a constant: decided for all such values.
/// value of the first Newton step, as u64 limbs (written by the `fixpoint_once_stub_*` stand-ins)
pub static mut ROOT_STEP: [u64; 8] = [0; 8];
pub static mut ROOT_GUESS: [u64; 8] = [0; 8];
macro_rules! fixpoint_once_stub {
    ($name:ident, $U:ident, $D:ty) => {
        pub fn $name<const N: usize, F: Fn(bnum::$U<N>) -> bnum::$U<N>>(s: bnum::$U<N>, _max_bits: u32, f: F) -> bnum::$U<N> {
            let t = f(s);
            unsafe {
                ROOT_STEP = crate::c02::limbs_of::<$D, N, 8>(t.digits());
                ROOT_GUESS = crate::c02::limbs_of::<$D, N, 8>(s.digits());
            }
            bnum::$U::<N>::from_digits([ROOT_MARK64 as $D; N])
        }
    };
}
fixpoint_once_stub!(fixpoint_once_stub_u8, BUintD8, u8);
fixpoint_once_stub!(fixpoint_once_stub_u16, BUintD16, u16);
fixpoint_once_stub!(fixpoint_once_stub_u32, BUintD32, u32);
fixpoint_once_stub!(fixpoint_once_stub_u64, BUint, u64);

#[macro_export]
macro_rules! c18_roots_first_step {
    ($name:ident, $unw:expr, $U:ty, $I:ty, $D:ty, $N:expr, $UW:ty, $deg:expr, $top:expr, [$($stub:meta),*]) => {
        $crate::harness_stub!($name, $unw, [$($stub),*], {
            use $crate::util::*;
            use num_integer::Roots;
            // concrete top digit (full bit length): `bits()` and with it the initial guess are constants for the solver's constant propagation
            let mut ud: [$D; $N] = $crate::nd::nd();
            ud[$N - 1] = $top;
            let u = <$U as BN<$D, $N>>::mk(ud);
            let n: u32 = $deg;
            let r: [$D; $N] = Roots::nth_root(&u, n).dg();
            #[cfg(kani)]
            {
                let mark: [$D; $N] = [$crate::c18::ROOT_MARK64 as $D; $N];
                assert!(deq(&r, &mark), "the Newton kernel is reached and its first step does not panic");
                // value of the first step: ((n - 1) * s0 + floor(x / s0^(n-1))) / n with s0 = 2^m, m = bits / n + 1 (exact limb arithmetic; all shifts are constants)
                const DBU: usize = <$D>::BITS as usize;
                let topv: $D = $top;
                let bits: usize = ($N - 1) * DBU + (DBU - topv.leading_zeros() as usize);
                let m: usize = bits / (n as usize) + 1;
                let k: usize = m * (n as usize - 1);
                let xl: [u64; 8] = $crate::c02::limbs_of::<$D, $N, 8>(&ud);
                let mut t = [0u64; 8];
                let mut i = 0;
                while i < 8 {
                    let src = i + k / 64;
                    if src < 8 { t[i] = xl[src] >> (k % 64); if k % 64 != 0 && src + 1 < 8 { t[i] |= xl[src + 1] << (64 - k % 64); } }
                    i += 1;
                }
                let addend: u64 = ((n as u64) - 1) << m; // m <= 49, n <= 2^14: fits
                let mut carry = addend;
                let mut i = 0;
                while i < 8 { let (s, c) = t[i].overflowing_add(carry); t[i] = s; carry = c as u64; i += 1; }
                let mut rem: u128 = 0;
                let mut i = 8;
                while i > 0 { i -= 1; let cur = (rem << 64) | t[i] as u128; t[i] = (cur / n as u128) as u64; rem = cur % n as u128; }
                let got = unsafe { *core::ptr::addr_of!($crate::c18::ROOT_STEP) };
                let guess = unsafe { *core::ptr::addr_of!($crate::c18::ROOT_GUESS) };
                let j: usize = $crate::nd::nd();
                $crate::nd::assume(j < 8);
                assert!(guess[j] == if j == m / 64 { 1u64 << (m % 64) } else { 0 }, "initial guess 2^(bits / n + 1)");
                assert!(got[j] == t[j], "first Newton step = ((n - 1) * s + x / s^(n-1)) / n");
            }
            #[cfg(not(kani))]
            {
                let _j: usize = $crate::nd::nd();
                // The solver's counterexample is a deviation of an INTERMEDIATE value (guess / first step); it is confirmed natively only through the
                // observable contract r^n <= x < (r+1)^n, on the counterexample value and on a few values of the same shape (same top digit and degree).
                let mut cands: [[$D; $N]; 5] = [ud; 5];
                let mut k = 0;
                while k + 1 < $N { cands[1][k] = 0; cands[2][k] = <$D>::MAX; cands[3][k] = if k % 2 == 0 { <$D>::MAX } else { 0 }; cands[4][k] = 1; k += 1; }
                for cd in cands.iter() {
                    let x = <$U as BN<$D, $N>>::mk(*cd);
                    let w = <$UW as bnum::cast::CastFrom<$U>>::cast_from(x);
                    // the degree of the counterexample and the neighbouring degrees (a wrong first step shows in the result only for some degrees)
                    for n2 in core::iter::once(n).chain(4u32..=64) {
                        let rr = Roots::nth_root(&x, n2);
                        let rw = <$UW as bnum::cast::CastFrom<$U>>::cast_from(rr);
                        let lo_ok = match rw.checked_pow(n2) { Some(p) => p <= w, None => false };
                        let hi_ok = match (rw + <$UW>::ONE).checked_pow(n2) { Some(p) => p > w, None => true };
                        assert!(lo_ok && hi_ok, "r^n <= x < (r+1)^n (degree {})", n2);
                    }
                }
            }
        });
    };
}
