//! C14 - float <-> integer casts round and saturate exactly like Rust's `as`.
//! float -> int: all 2^32 / 2^64 bit patterns symbolic; bit-indexed truncate-and-saturate specification from an
//! independent IEEE-754 decode, plus (width <= 128) equality with the primitive `as` followed by saturation.
//! int -> float: (width <= 128) equality of to_bits() with the primitive `as`; wider: round-to-nearest-even spec.

#[macro_export]
macro_rules! c14_from_float {
    ($name:ident, $unw:expr, $T:ty, $D:ty, $N:expr) => {
        $crate::harness!($name, $unw, {
            use $crate::util::*;
            use bnum::cast::As;
            const W: u32 = <$D>::BITS * $N;
            const S: bool = <$T as BN<$D, $N>>::SIGNED;
            let i: u32 = $crate::nd::nd();
            $crate::nd::assume(i < W);
            // f32
            let b32: u32 = $crate::nd::nd();
            let f = f32::from_bits(b32);
            let o: $T = f.as_();
            let od = o.dg();
            assert!(dbit(&od, i) == float_as_int_bit(decode32(b32), W, S, i), "f32 as int: truncate toward zero, NaN -> 0, saturate");
            if W <= 128 {
                if S {
                    let p = f as i128;
                    let (lo, hi) = if W == 128 { (i128::MIN, i128::MAX) } else { (-(1i128 << (W - 1)), (1i128 << (W - 1)) - 1) };
                    let e = if p < lo { lo } else if p > hi { hi } else { p };
                    assert!(dval_i128(&od) == e, "equals primitive `as` + saturation (f32, signed)");
                } else {
                    let p = f as u128;
                    let hi = if W == 128 { u128::MAX } else { (1u128 << W) - 1 };
                    assert!(dval_u128(&od) == if p > hi { hi } else { p }, "equals primitive `as` + saturation (f32, unsigned)");
                }
            }
            // f64
            let b64: u64 = $crate::nd::nd();
            let g = f64::from_bits(b64);
            let o: $T = g.as_();
            let od = o.dg();
            assert!(dbit(&od, i) == float_as_int_bit(decode64(b64), W, S, i), "f64 as int: truncate toward zero, NaN -> 0, saturate");
            if W <= 128 {
                if S {
                    let p = g as i128;
                    let (lo, hi) = if W == 128 { (i128::MIN, i128::MAX) } else { (-(1i128 << (W - 1)), (1i128 << (W - 1)) - 1) };
                    let e = if p < lo { lo } else if p > hi { hi } else { p };
                    assert!(dval_i128(&od) == e, "equals primitive `as` + saturation (f64, signed)");
                } else {
                    let p = g as u128;
                    let hi = if W == 128 { u128::MAX } else { (1u128 << W) - 1 };
                    assert!(dval_u128(&od) == if p > hi { hi } else { p }, "equals primitive `as` + saturation (f64, unsigned)");
                }
            }
            $crate::reach!(f > 0.5 && f < 1.0, "f32 in (0.5, 1)");
            $crate::reach!(g.is_nan() && f.is_infinite(), "NaN / inf");
            $crate::reach!(g < -1.5 && g > -100.0 && g != g.trunc(), "negative fraction");
        });
    };
}

/// widths <= 128: the cast equals the primitive cast of the same value, bit for bit
#[macro_export]
macro_rules! c14_to_float {
    ($name:ident, $unw:expr, $T:ty, $D:ty, $N:expr) => {
        $crate::harness!($name, $unw, {
            use $crate::util::*;
            use bnum::cast::As;
            const S: bool = <$T as BN<$D, $N>>::SIGNED;
            let (x, xd) = <$T as BN<$D, $N>>::any();
            let f: f32 = x.as_();
            let g: f64 = x.as_();
            if S {
                let v = dval_i128(&xd);
                assert!(f.to_bits() == (v as f32).to_bits(), "as f32 (nearest, ties to even)");
                assert!(g.to_bits() == (v as f64).to_bits(), "as f64 (nearest, ties to even)");
            } else {
                let v = dval_u128(&xd);
                assert!(f.to_bits() == (v as f32).to_bits(), "as f32 (nearest, ties to even)");
                assert!(g.to_bits() == (v as f64).to_bits(), "as f64 (nearest, ties to even)");
            }
            $crate::reach!(dneg(&xd), "top bit set");
        });
    };
}

/// u64-digit types wider than 128 bits: round-to-nearest-even specification on a 64-bit window below the leading one
#[macro_export]
macro_rules! c14_to_float_wide {
    ($name:ident, $unw:expr, $U:ty, $I:ty, $N:expr) => {
        $crate::harness!($name, $unw, {
            use $crate::util::*;
            use bnum::cast::As;
            let (x, xd) = <$U as BN<u64, $N>>::any();
            // bit length from the digits
            let mut nb = 0u32;
            let mut k = 0;
            while k < $N { if xd[k] != 0 { nb = 64 * k as u32 + 64 - xd[k].leading_zeros(); } k += 1; }
            $crate::nd::assume(nb > 64);
            // top 64 bits below (and including) the leading one, and "any lower bit set"
            let p = nb - 64;
            let (q, r) = ((p / 64) as usize, p % 64);
            let win = if r == 0 { xd[q] } else { (xd[q] >> r) | (xd[q + 1] << (64 - r)) };
            let mut sticky_low = false;
            let mut k = 0;
            while k < $N {
                if k < q { sticky_low |= xd[k] != 0; }
                k += 1;
            }
            if r != 0 { sticky_low |= xd[q] & ((1u64 << r) - 1) != 0; }
            macro_rules! expect {
                ($F:ty, $BT:ty, $mant:expr, $bias:expr, $maxexp:expr) => {{
                    // keep $mant bits of the window, guard = next bit, sticky = rest | sticky_low
                    let keep = win >> (64 - $mant);
                    let guard = (win >> (63 - $mant)) & 1 == 1;
                    let sticky = win & ((1u64 << (63 - $mant)) - 1) != 0 || sticky_low;
                    let mut mant = keep;
                    let mut exp = nb as i32 - 1;
                    if guard && (sticky || keep & 1 == 1) {
                        mant += 1;
                        if mant >> $mant == 1 { mant >>= 1; exp += 1; }
                    }
                    if exp >= $maxexp { <$F>::INFINITY.to_bits() }
                    else { (((exp + $bias) as $BT) << ($mant - 1)) | ((mant as $BT) & ((1 << ($mant - 1)) - 1)) }
                }};
            }
            let e32: u32 = expect!(f32, u32, 24, 127, 128);
            let e64: u64 = expect!(f64, u64, 53, 1023, 1024);
            let f: f32 = x.as_();
            let g: f64 = x.as_();
            assert!(f.to_bits() == e32, "wide as f32");
            assert!(g.to_bits() == e64, "wide as f64");
            // signed: magnitude cast, then sign
            let sx = <$I>::from_bits(x);
            if !dneg(&xd) {
                let sf: f32 = sx.as_();
                let sg: f64 = sx.as_();
                assert!(sf.to_bits() == e32 && sg.to_bits() == e64, "non-negative signed == unsigned");
            }
            let nx: f64 = sx.wrapping_neg().as_();
            if !dneg(&xd) { assert!(nx.to_bits() == e64 | (1u64 << 63), "negated value gives the negated float"); }
            $crate::reach!(f.is_infinite() && !g.is_infinite(), "f32 overflows to infinity");
            $crate::reach!(e64 & 1 == 0 && win & 0x7ff == 0x400 && !sticky_low, "exact tie to even (f64)");
            $crate::reach!((win >> 11) == (1u64 << 53) - 1 && win & 0x400 != 0, "mantissa carry into the exponent");
        });
    };
}
