//! C16 - results depend only on width, signedness and value, never on the digit type; constants.
//! (i) equal width: op in representation A, cast to B == op in representation B on the cast operands;
//! (ii) extension: sign-/zero-extension into a wider type commutes with every value-level operation whose exact
//!      result is representable in the narrow type; (iii) associated constants and type aliases.

/// (i) same width, two digit types.  $A / $B are types of equal width and signedness.
#[macro_export]
macro_rules! c16_same_width_lin {
    ($name:ident, $unw:expr, $A:ty, $AD:ty, $AN:expr, $B:ty, $BD:ty, $BN:expr) => {
        $crate::harness!($name, $unw, {
            use $crate::util::*;
            use bnum::cast::As;
            const W: u32 = <$AD>::BITS * $AN;
            let (x, xd) = <$A as BN<$AD, $AN>>::any();
            let (y, _) = <$A as BN<$AD, $AN>>::any();
            let (x2, y2): ($B, $B) = (x.as_(), y.as_());
            // the cast itself preserves the bit pattern
            let i: u32 = $crate::nd::nd();
            $crate::nd::assume(i < W);
            assert!(dbit(&x2.dg(), i) == dbit(&xd, i), "cast between representations keeps the pattern");
            let same = |p: $A, q: $B| -> bool { let c: $B = p.as_(); deq(&c.dg(), &q.dg()) };
            let (v, f) = x.overflowing_add(y); let (v2, f2) = x2.overflowing_add(y2); assert!(same(v, v2) && f == f2, "add");
            let (v, f) = x.overflowing_sub(y); let (v2, f2) = x2.overflowing_sub(y2); assert!(same(v, v2) && f == f2, "sub");
            let (v, f) = x.overflowing_neg(); let (v2, f2) = x2.overflowing_neg(); assert!(same(v, v2) && f == f2, "neg");
            assert!(x.cmp(&y) == x2.cmp(&y2), "comparison");
            assert!(same(x.bitand(y), x2.bitand(y2)) && same(x.bitor(y), x2.bitor(y2)) && same(x.bitxor(y), x2.bitxor(y2)) && same(x.not(), x2.not()), "bitwise");
            assert!(x.leading_zeros() == x2.leading_zeros() && x.trailing_zeros() == x2.trailing_zeros() && x.count_ones() == x2.count_ones() && x.bits() == x2.bits(), "counts");
            assert!(same(x.swap_bytes(), x2.swap_bytes()) && same(x.reverse_bits(), x2.reverse_bits()), "swap_bytes / reverse_bits");
            assert!(same(x.saturating_add(y), x2.saturating_add(y2)) && same(x.saturating_sub(y), x2.saturating_sub(y2)), "saturating");
            assert!(x.as_::<u64>() == x2.as_::<u64>() && x.as_::<i128>() == x2.as_::<i128>() && x.as_::<f32>().to_bits() == x2.as_::<f32>().to_bits(), "casts to primitives");
            $crate::reach!(dneg(&xd), "top bit set");
        });
    };
}

#[macro_export]
macro_rules! c16_same_width_shift {
    ($name:ident, $unw:expr, $A:ty, $AD:ty, $AN:expr, $B:ty, $BD:ty, $BN:expr) => {
        $crate::harness!($name, $unw, {
            use $crate::util::*;
            use bnum::cast::As;
            let (x, xd) = <$A as BN<$AD, $AN>>::any();
            let x2: $B = x.as_();
            let s: u32 = $crate::nd::nd();
            let same = |p: $A, q: $B| -> bool { let c: $B = p.as_(); deq(&c.dg(), &q.dg()) };
            let (v, f) = x.overflowing_shl(s); let (v2, f2) = x2.overflowing_shl(s); assert!(same(v, v2) && f == f2, "shl");
            let (v, f) = x.overflowing_shr(s); let (v2, f2) = x2.overflowing_shr(s); assert!(same(v, v2) && f == f2, "shr");
            assert!(same(x.rotate_left(s), x2.rotate_left(s)) && same(x.rotate_right(s), x2.rotate_right(s)), "rotate");
            assert!(same(x.unbounded_shl(s), x2.unbounded_shl(s)) && same(x.unbounded_shr(s), x2.unbounded_shr(s)), "unbounded shifts");
            $crate::reach!(dneg(&xd) && s > 70, "large amount");
        });
    };
}

/// (i) mul / div / rem / pow across digit types ($gen = any | any_alpha)
#[macro_export]
macro_rules! c16_same_width_mul {
    ($name:ident, $unw:expr, $A:ty, $AD:ty, $AN:expr, $B:ty, $BD:ty, $BN:expr, $gen:ident) => {
        $crate::harness!($name, $unw, {
            use $crate::util::*;
            use bnum::cast::As;
            let (x, _) = <$A as BN<$AD, $AN>>::$gen();
            let (y, yd) = <$A as BN<$AD, $AN>>::$gen();
            let (x2, y2): ($B, $B) = (x.as_(), y.as_());
            let same = |p: $A, q: $B| -> bool { let c: $B = p.as_(); deq(&c.dg(), &q.dg()) };
            let (v, f) = x.overflowing_mul(y); let (v2, f2) = x2.overflowing_mul(y2); assert!(same(v, v2) && f == f2, "mul");
            match (x.checked_div(y), x2.checked_div(y2)) { (Some(p), Some(q)) => assert!(same(p, q), "div"), (None, None) => {}, _ => assert!(false, "div: Some/None differs") }
            match (x.checked_rem(y), x2.checked_rem(y2)) { (Some(p), Some(q)) => assert!(same(p, q), "rem"), (None, None) => {}, _ => assert!(false, "rem: Some/None differs") }
            let e: u32 = $crate::nd::nd();
            $crate::nd::assume(e < 8);
            let (v, f) = x.overflowing_pow(e); let (v2, f2) = x2.overflowing_pow(e); assert!(same(v, v2) && f == f2, "pow");
            $crate::reach!(!dzero(&yd), "non-zero divisor");
        });
    };
}

/// (ii) extension from $A (narrow) into $B (wide, same signedness) commutes with value-level operations
#[macro_export]
macro_rules! c16_extend {
    ($name:ident, $unw:expr, $A:ty, $AD:ty, $AN:expr, $B:ty, $BD:ty, $BN:expr, $mul:expr) => {
        $crate::harness!($name, $unw, {
            use $crate::util::*;
            use bnum::cast::As;
            const WA: u32 = <$AD>::BITS * $AN;
            let (x, xd) = <$A as BN<$AD, $AN>>::any();
            let (y, yd) = <$A as BN<$AD, $AN>>::any();
            let (x2, y2): ($B, $B) = (x.as_(), y.as_());
            let same = |p: $A, q: $B| -> bool { let c: $B = p.as_(); deq(&c.dg(), &q.dg()) };
            if let Some(v) = x.checked_add(y) { assert!(same(v, x2.checked_add(y2).unwrap()), "add commutes with extension"); }
            if let Some(v) = x.checked_sub(y) { assert!(same(v, x2.checked_sub(y2).unwrap()), "sub commutes with extension"); }
            assert!(x.cmp(&y) == x2.cmp(&y2), "comparison commutes with extension");
            let s: u32 = $crate::nd::nd();
            $crate::nd::assume(s < WA);
            // left shift: representable when no significant bit is shifted out (the wide shift, cast back, equals the narrow one, and the wide result fits)
            let wide = x2.checked_shl(s).unwrap();
            let back: $A = wide.as_();
            let back2: $B = back.as_();
            if deq(&back2.dg(), &wide.dg()) { assert!(deq(&x.checked_shl(s).unwrap().dg(), &back.dg()), "left shift commutes with extension when representable"); }
            if $mul {
                if let Some(v) = x.checked_mul(y) { assert!(same(v, x2.checked_mul(y2).unwrap()), "mul commutes with extension"); }
                if let Some(v) = x.checked_div(y) { assert!(same(v, x2.checked_div(y2).unwrap()), "div commutes with extension"); }
                if let Some(v) = x.checked_rem(y) { assert!(same(v, x2.checked_rem(y2).unwrap()), "rem commutes with extension"); }
                let e: u32 = $crate::nd::nd();
                $crate::nd::assume(e < 9);
                if let Some(v) = x.checked_pow(e) { assert!(same(v, x2.checked_pow(e).unwrap()), "pow commutes with extension"); }
            }
            $crate::reach!(dneg(&xd) && !dneg(&yd), "mixed top bits");
        });
    };
}

/// (iii) constants of one instantiation
#[macro_export]
macro_rules! c16_consts {
    ($name:ident, $unw:expr, $U:ty, $I:ty, $D:ty, $N:expr) => {
        $crate::harness!($name, $unw, {
            use $crate::util::*;
            const BITS: u32 = <$D>::BITS * $N;
            assert!(<$U>::BITS == BITS && <$I>::BITS == BITS && <$U>::BYTES == BITS / 8 && <$I>::BYTES == BITS / 8, "BITS = N x digit bits, BYTES = BITS / 8");
            let small = |d: &[$D; $N], v: u64| -> bool { let mut ok = d[0].to_u64() == v; let mut k = 1; while k < $N { ok &= d[k].to_u64() == 0; k += 1; } ok };
            let negsmall = |d: &[$D; $N], v: u64| -> bool {
                let mut ok = d[0].to_u64() == (<$D as Dig>::MAXD.to_u64() - (v - 1));
                let mut k = 1; while k < $N { ok &= d[k] == <$D as Dig>::MAXD; k += 1; } ok };
            assert!(<$U>::MIN.is_zero() && is_all_ones(&<$U>::MAX.dg()) && <$U>::ZERO.is_zero(), "unsigned MIN / MAX / ZERO");
            assert!(is_min_s(&<$I>::MIN.dg()) && is_all_ones(&<$I>::MAX.bitxor(<$I>::MIN).dg()) && !dneg(&<$I>::MAX.dg()) && <$I>::ZERO.is_zero(), "signed MIN / MAX / ZERO");
            assert!(small(&<$U>::ONE.dg(), 1) && small(&<$U>::TWO.dg(), 2) && small(&<$U>::THREE.dg(), 3) && small(&<$U>::FOUR.dg(), 4) && small(&<$U>::FIVE.dg(), 5)
                && small(&<$U>::SIX.dg(), 6) && small(&<$U>::SEVEN.dg(), 7) && small(&<$U>::EIGHT.dg(), 8) && small(&<$U>::NINE.dg(), 9) && small(&<$U>::TEN.dg(), 10), "unsigned ONE..TEN");
            assert!(small(&<$I>::ONE.dg(), 1) && small(&<$I>::TWO.dg(), 2) && small(&<$I>::THREE.dg(), 3) && small(&<$I>::FOUR.dg(), 4) && small(&<$I>::FIVE.dg(), 5)
                && small(&<$I>::SIX.dg(), 6) && small(&<$I>::SEVEN.dg(), 7) && small(&<$I>::EIGHT.dg(), 8) && small(&<$I>::NINE.dg(), 9) && small(&<$I>::TEN.dg(), 10), "signed ONE..TEN");
            assert!(negsmall(&<$I>::NEG_ONE.dg(), 1) && negsmall(&<$I>::NEG_TWO.dg(), 2) && negsmall(&<$I>::NEG_THREE.dg(), 3) && negsmall(&<$I>::NEG_FOUR.dg(), 4)
                && negsmall(&<$I>::NEG_FIVE.dg(), 5) && negsmall(&<$I>::NEG_SIX.dg(), 6) && negsmall(&<$I>::NEG_SEVEN.dg(), 7) && negsmall(&<$I>::NEG_EIGHT.dg(), 8)
                && negsmall(&<$I>::NEG_NINE.dg(), 9) && negsmall(&<$I>::NEG_TEN.dg(), 10), "NEG_ONE..NEG_TEN");
        });
    };
}

/// (iii) the aliases have exactly the named widths (no symbolic input: decided by evaluation inside the harness)
#[macro_export]
macro_rules! c16_aliases {
    ($name:ident, $unw:expr) => {
        $crate::harness!($name, $unw, {
            use bnum::types::*;
            assert!(U128::BITS == 128 && I128::BITS == 128 && U256::BITS == 256 && I256::BITS == 256 && U512::BITS == 512 && I512::BITS == 512);
            assert!(U1024::BITS == 1024 && I1024::BITS == 1024 && U2048::BITS == 2048 && I2048::BITS == 2048 && U4096::BITS == 4096 && I4096::BITS == 4096);
            assert!(U8192::BITS == 8192 && I8192::BITS == 8192);
            assert!(U8192::BYTES == 1024 && core::mem::size_of::<U8192>() == 1024 && core::mem::size_of::<I128>() == 16);
        });
    };
}

/// decimal parsing gives the same verdict and value in two configurations: equal width (two digit types) or narrow/wide
/// (then: whenever the narrow type accepts, the wide type accepts the same value)
#[macro_export]
macro_rules! c16_parse {
    ($name:ident, $unw:expr, $A:ty, $AD:ty, $AN:expr, $B:ty, $BD:ty, $BN:expr, $L:expr) => {
        $crate::harness!($name, $unw, {
            use $crate::util::*;
            use bnum::cast::As;
            const SAME: bool = <$AD>::BITS * $AN == <$BD>::BITS * $BN;
            let buf: [u8; $L] = $crate::nd::nd();
            let len: usize = $crate::nd::nd();
            $crate::nd::assume(len <= $L);
            let mut k = 0;
            while k < $L { $crate::nd::assume(buf[k] < 0x80); k += 1; }
            let s: &str = unsafe { core::str::from_utf8_unchecked(&buf[..len]) };
            let ra = <$A>::from_str_radix(s, 10);
            let rb = <$B>::from_str_radix(s, 10);
            match (&ra, &rb) {
                (Ok(x), Ok(y)) => { let c: $B = (*x).as_(); assert!(deq(&c.dg(), &y.dg()), "same value in both configurations"); }
                (Ok(_), Err(_)) => assert!(false, "accepted by the narrow / first configuration only"),
                (Err(_), Ok(y)) => {
                    assert!(!SAME, "equal width: accepted by the second configuration only");
                    // narrow / wide: the narrow type may only reject a numeral the wide type accepts if the value does not fit it
                    assert!(!fits_in(&y.dg(), <$B as BN<$BD, $BN>>::SIGNED, <$AD>::BITS * $AN, <$A as BN<$AD, $AN>>::SIGNED), "rejected by the narrow type although the value fits");
                }
                (Err(e), Err(f)) => assert!(!SAME || e.kind() == f.kind(), "equal width: same error kind"),
            }
            $crate::reach!(ra.is_ok() && len == $L && buf[0] == b'0', "zero-padded numeral accepted");
            $crate::reach!(ra.is_err() && rb.is_ok(), "fits only the wide type");
        });
    };
}

/// digit strings do not depend on the digit type: to_radix_le(R) is identical in two representations of the same value
/// ($A / $B of equal width, or narrow / wide)
#[macro_export]
macro_rules! c16_radix_same {
    ($name:ident, $unw:expr, $A:ty, $AD:ty, $AN:expr, $B:ty, $BD:ty, $BN:expr, $R:expr, $MAXD:expr) => {
        $crate::harness!($name, $unw, {
            use $crate::util::*;
            use bnum::cast::As;
            let (x, xd) = <$A as BN<$AD, $AN>>::any();
            let y: $B = x.as_();
            let (va, vb) = (x.to_radix_le($R), y.to_radix_le($R));
            assert!(va.len() == vb.len() && va.len() <= $MAXD, "same number of digits");
            let mut k = 0;
            while k < $MAXD { if k < va.len() && k < vb.len() { assert!(va[k] == vb[k], "same digits"); } k += 1; }
            core::mem::forget(va); core::mem::forget(vb);
            $crate::reach!(!dzero(&xd) && xd[$AN - 1] == 0, "top digit zero");
        });
    };
}

/// (i') equal width, two digit types, mul / div / rem with a CONCRETE second operand (given as little-endian BYTES, so that both
/// representations are built from the same constant) and a fully symbolic first operand: products and Knuth division by constants,
/// decided for all first operands at 32..128 bits, where the two-symbolic-operand miter stops at 16 bits.
#[macro_export]
macro_rules! c16_same_width_cmul {
    ($name:ident, $unw:expr, $A:ty, $AD:ty, $AN:expr, $B:ty, $BD:ty, $BN:expr, $BYTES:expr, [$($yb:expr),*]) => {
        $crate::harness!($name, $unw, {
            use $crate::util::*;
            use bnum::cast::As;
            let (x, _) = <$A as BN<$AD, $AN>>::any();
            let yb: [u8; $BYTES] = [$($yb),*];
            let yd: [$AD; $AN] = to_digits::<$AD, $AN, $BYTES>(&yb);
            let yd2: [$BD; $BN] = to_digits::<$BD, $BN, $BYTES>(&yb);
            let y = <$A as BN<$AD, $AN>>::mk(yd);
            let y2 = <$B as BN<$BD, $BN>>::mk(yd2);
            let x2: $B = x.as_();
            let same = |p: $A, q: $B| -> bool { let c: $B = p.as_(); deq(&c.dg(), &q.dg()) };
            let (v, f) = x.overflowing_mul(y); let (v2, f2) = x2.overflowing_mul(y2); assert!(same(v, v2) && f == f2, "mul");
            match (x.checked_div(y), x2.checked_div(y2)) { (Some(p), Some(q)) => assert!(same(p, q), "div"), (None, None) => {}, _ => assert!(false, "div: Some/None differs") }
            match (x.checked_rem(y), x2.checked_rem(y2)) { (Some(p), Some(q)) => assert!(same(p, q), "rem"), (None, None) => {}, _ => assert!(false, "rem: Some/None differs") }
            $crate::reach!(f, "overflowing product");
            $crate::reach!(!f, "representable product");
        });
    };
}
