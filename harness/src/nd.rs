//! Nondeterminism shim.  Under Kani every `nd::<T>()` is `kani::any()`; in a native build the same call
//! pops the next concrete value of a recorded counterexample (`VERIF_REPLAY=<file>`, one byte vector per
//! `any()` call, in call order, exactly what `cargo kani -Z concrete-playback` prints), so that a harness
//! compiled with the stable toolchain re-executes the solver's counterexample against the real crate.

#[cfg(not(kani))]
mod native {
    use std::collections::VecDeque;
    use std::sync::Mutex;
    static Q: Mutex<Option<VecDeque<Vec<u8>>>> = Mutex::new(None);

    fn load() -> VecDeque<Vec<u8>> {
        let mut q = VecDeque::new();
        if let Ok(p) = std::env::var("VERIF_REPLAY") {
            let s = std::fs::read_to_string(&p).expect("replay file");
            // minimal parser for {"vals": [[1,2],[3]], ...}: find "vals" then read nested integer lists
            let i = s.find("\"vals\"").expect("vals key");
            let s = &s[i..];
            let start = s.find('[').unwrap();
            let mut depth = 0i32;
            let mut cur: Vec<u8> = Vec::new();
            let mut num: Option<u32> = None;
            for ch in s[start..].chars() {
                match ch {
                    '[' => { depth += 1; if depth == 2 { cur = Vec::new(); } }
                    ']' => {
                        if let Some(n) = num.take() { cur.push(n as u8); }
                        if depth == 2 { q.push_back(core::mem::take(&mut cur)); }
                        depth -= 1;
                        if depth == 0 { break; }
                    }
                    '0'..='9' => { num = Some(num.unwrap_or(0) * 10 + ch.to_digit(10).unwrap()); }
                    _ => { if let Some(n) = num.take() { cur.push(n as u8); } }
                }
            }
        }
        q
    }

    pub fn pop(n: usize) -> Vec<u8> {
        let mut g = Q.lock().unwrap();
        if g.is_none() { *g = Some(load()); }
        let mut v = g.as_mut().unwrap().pop_front().unwrap_or_default();
        v.resize(n, 0);
        v
    }
}

pub trait Nd: Sized {
    fn nd() -> Self;
}

macro_rules! nd_prim {
    ($($t:ty),*) => {$(
        impl Nd for $t {
            #[inline(always)]
            fn nd() -> Self {
                #[cfg(kani)]
                { kani::any() }
                #[cfg(not(kani))]
                {
                    let v = native::pop(core::mem::size_of::<$t>());
                    let mut a = [0u8; core::mem::size_of::<$t>()];
                    a.copy_from_slice(&v);
                    <$t>::from_le_bytes(a)
                }
            }
        }
    )*};
}
nd_prim!(u8, u16, u32, u64, u128, usize, i8, i16, i32, i64, i128, isize);

impl Nd for bool {
    #[inline(always)]
    fn nd() -> Self {
        #[cfg(kani)]
        { kani::any() }
        #[cfg(not(kani))]
        { native::pop(1)[0] != 0 }
    }
}

impl<T: Nd, const N: usize> Nd for [T; N] {
    #[inline(always)]
    fn nd() -> Self {
        core::array::from_fn(|_| T::nd())
    }
}

#[inline(always)]
pub fn nd<T: Nd>() -> T {
    T::nd()
}

/// `kani::assume`; natively an unmet assumption means the recorded values do not drive this harness
/// down the reported path (encoding problem) - exit with the distinguished status 77.
#[inline(always)]
pub fn assume(c: bool) {
    #[cfg(kani)]
    kani::assume(c);
    #[cfg(not(kani))]
    if !c {
        eprintln!("REPLAY-ASSUMPTION-NOT-MET");
        std::process::exit(77);
    }
}

/// Reachability witness: must be SATISFIED (driver checks).  Every cover whose description is not `noreturn` is a reachability witness.
#[macro_export]
macro_rules! reach {
    ($c:expr, $m:literal) => {
        #[cfg(kani)]
        kani::cover!($c, $m);
    };
}

/// Must-not-return witness used after a call that has to panic: must be UNSATISFIABLE/UNREACHABLE.
#[macro_export]
macro_rules! noreturn {
    ($m:literal) => {
        #[cfg(kani)]
        kani::cover!(true, "noreturn");
        #[cfg(not(kani))]
        {
            eprintln!("REPLAY-RETURNED-WHERE-PANIC-REQUIRED {}", $m);
            std::process::exit(78);
        }
    };
}

/// Declares a harness: a Kani proof with an unwind bound, and natively a `#[test]` used for replay.
#[macro_export]
macro_rules! harness {
    ($name:ident, $unwind:expr, $body:block) => {
        #[cfg_attr(kani, kani::proof)]
        #[cfg_attr(kani, kani::unwind($unwind))]
        #[cfg_attr(not(kani), test)]
        pub fn $name() {
            $body;
            $crate::reach!(true, "end");
        }
    };
}

/// Declares a must-panic harness: Kani `should_panic`; the body must end in `noreturn!`.
#[macro_export]
macro_rules! panic_harness {
    ($name:ident, $unwind:expr, $body:block) => {
        #[cfg_attr(kani, kani::proof)]
        #[cfg_attr(kani, kani::unwind($unwind))]
        #[cfg_attr(kani, kani::should_panic)]
        #[cfg_attr(not(kani), test)]
        #[cfg_attr(not(kani), should_panic)]
        pub fn $name() {
            $body;
        }
    };
}

/// A harness with `#[kani::stub(..)]` replacements (needs -Z stubbing); natively the real functions run.
#[macro_export]
macro_rules! harness_stub {
    ($name:ident, $unw:expr, [$($stub:meta),*], $body:block) => {
        #[cfg_attr(kani, kani::proof)]
        #[cfg_attr(kani, kani::unwind($unw))]
        $(#[cfg_attr(kani, $stub)])*
        #[cfg_attr(not(kani), test)]
        pub fn $name() {
            $body;
            $crate::reach!(true, "end");
        }
    };
}
