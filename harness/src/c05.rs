//! C05 - shifts move bits by exactly s places; rotations permute the BITS-bit pattern by n mod BITS.
//! Oracle: bit-indexed specification.  The shift amount ranges over all of u32 and the inspected bit index
//! is symbolic, so the solver quantifies over (value, amount, bit position); no wide expected value is built.
//! All oracle code is loop-free or loops over the N digits, so the unwind bound stays at N + 2.

/// $T is the bnum type under test (signed or unsigned), $dir is shl or shr
#[macro_export]
macro_rules! c05_shift {
    ($name:ident, $unw:expr, $T:ty, $D:ty, $N:expr, shl) => {
        $crate::c05_shift!(@body $name, $unw, $T, $D, $N, overflowing_shl, checked_shl, wrapping_shl, unbounded_shl, strict_shl, unchecked_shl,
            |xd: &[$D; $N], i: u32, s: u32, _sign: bool| i >= s && dbit(xd, i - s), |_sign: bool| false);
    };
    ($name:ident, $unw:expr, $T:ty, $D:ty, $N:expr, shr) => {
        $crate::c05_shift!(@body $name, $unw, $T, $D, $N, overflowing_shr, checked_shr, wrapping_shr, unbounded_shr, strict_shr, unchecked_shr,
            |xd: &[$D; $N], i: u32, s: u32, sign: bool| if i + s < BITS { dbit(xd, i + s) } else { sign }, |sign: bool| sign);
    };
    (@body $name:ident, $unw:expr, $T:ty, $D:ty, $N:expr, $ov:ident, $chk:ident, $wr:ident, $unb:ident, $strict:ident, $unchk:ident, $spec:expr, $fill:expr) => {
        $crate::harness!($name, $unw, {
            use $crate::util::*;
            const BITS: u32 = <$D>::BITS * $N;
            let (x, xd) = <$T as BN<$D, $N>>::any();
            // the bit shifted in from the left: sign for signed shr, zero otherwise
            let sign = <$T as BN<$D, $N>>::SIGNED && dneg(&xd);
            let s: u32 = $crate::nd::nd();
            let i: u32 = $crate::nd::nd();
            $crate::nd::assume(i < BITS);
            let spec = $spec;
            let fill = $fill;
            let (v, f) = x.$ov(s);
            let vd = v.dg();
            assert!(f == (s >= BITS), "flag exactly when s >= BITS");
            let c = x.$chk(s);
            assert!(c.is_some() == (s < BITS), "checked None exactly when s >= BITS");
            assert!(deq(&x.$wr(s).dg(), &vd), "wrapping == overflowing.0");
            let unb = x.$unb(s).dg();
            if s < BITS {
                assert!(dbit(&vd, i) == spec(&xd, i, s, sign), "shifted bit");
                assert!(deq(&c.unwrap().dg(), &vd));
                assert!(deq(&unb, &vd));
                assert!(deq(&x.$strict(s).dg(), &vd));
                assert!(deq(&unsafe { x.$unchk(s) }.dg(), &vd));
            } else {
                assert!(dbit(&unb, i) == fill(sign), "unbounded shift saturates to 0 / -1");
                if BITS.is_power_of_two() {
                    assert!(dbit(&vd, i) == spec(&xd, i, s % BITS, sign), "wrapping shift uses s mod BITS");
                }
            }
            $crate::reach!(s < BITS && s % <$D>::BITS != 0 && ($N == 1 || s > <$D>::BITS), "in range, crosses digits");
            $crate::reach!(s < BITS && s % <$D>::BITS == 0 && ($N == 1 || s > 0), "digit aligned");
            $crate::reach!(s >= BITS && dneg(&xd), "out of range");
        });
    };
}

/// strict_shl / strict_shr must panic for every amount >= BITS
#[macro_export]
macro_rules! c05_strict_panic {
    ($name:ident, $unw:expr, $U:ty, $I:ty, $D:ty, $N:expr, $B:expr) => {
        $crate::panic_harness!($name, $unw, {
            const BITS: u32 = 8 * $B;
            let dx: [$D; $N] = $crate::nd::nd();
            let u = <$U>::from_digits(dx);
            let x = <$I>::from_bits(u);
            let s: u32 = $crate::nd::nd();
            $crate::nd::assume(s >= BITS);
            let sel: u8 = $crate::nd::nd();
            $crate::nd::assume(sel < 4);
            $crate::reach!(sel == 0, "p0"); $crate::reach!(sel == 3 && s == BITS, "p3");
            match sel {
                0 => { let _ = u.strict_shl(s); }
                1 => { let _ = u.strict_shr(s); }
                2 => { let _ = x.strict_shl(s); }
                _ => { let _ = x.strict_shr(s); }
            }
            $crate::noreturn!("strict shift returned for amount >= BITS");
        });
    };
}

/// $dir = rotate_left / rotate_right; $inv the opposite one; $idx maps the output bit index to the source bit index
#[macro_export]
macro_rules! c05_rot {
    ($name:ident, $unw:expr, $U:ty, $I:ty, $D:ty, $N:expr, left) => {
        $crate::c05_rot!(@body $name, $unw, $U, $I, $D, $N, rotate_left, rotate_right, |i: u32, m: u32| (i + BITS - m) % BITS);
    };
    ($name:ident, $unw:expr, $U:ty, $I:ty, $D:ty, $N:expr, right) => {
        $crate::c05_rot!(@body $name, $unw, $U, $I, $D, $N, rotate_right, rotate_left, |i: u32, m: u32| (i + m) % BITS);
    };
    (@body $name:ident, $unw:expr, $U:ty, $I:ty, $D:ty, $N:expr, $rot:ident, $inv:ident, $idx:expr) => {
        $crate::harness!($name, $unw, {
            use $crate::util::*;
            const BITS: u32 = <$D>::BITS * $N;
            let (x, xd) = <$U as BN<$D, $N>>::any();
            let sx = <$I>::from_bits(x);
            let n: u32 = $crate::nd::nd();
            let i: u32 = $crate::nd::nd();
            $crate::nd::assume(i < BITS);
            let m = n % BITS;
            let idx = $idx;
            let r = x.$rot(n);
            // bit i of rotl(x, n) is bit (i - m) mod BITS of x; of rotr(x, n) bit (i + m) mod BITS
            assert!(dbit(&r.dg(), i) == dbit(&xd, idx(i, m)), "rotated bit");
            assert!(deq(&r.$inv(n).dg(), &xd), "rotations are inverse");
            assert!(deq(&sx.$rot(n).dg(), &r.dg()), "signed rotates the same pattern");
            $crate::reach!(n >= BITS && m != 0 && m % <$D>::BITS != 0, "amount reduced mod BITS");
        });
    };
}
