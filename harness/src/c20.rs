//! C20 - random generation stays in range, is unbiased by construction, fills every bit (feature `rand`).
//! Environment stub: `SymRng` returns arbitrary bytes, records them and bounds the number of draws per harness
//! (histories with more consecutive rejections are outside the bound).

use rand::{Error, RngCore};

pub const LOG: usize = 64;

/// RNG whose output stream is symbolic.  `max_calls` bounds the number of fill requests (rejection-loop bound).
pub struct SymRng {
    pub log: [u8; LOG],
    pub n: usize,
    pub calls: u32,
    pub max_calls: u32,
}

impl SymRng {
    pub fn new(max_calls: u32) -> Self { SymRng { log: [0; LOG], n: 0, calls: 0, max_calls } }
    #[inline(always)]
    fn byte(&mut self) -> u8 {
        let b: u8 = crate::nd::nd();
        if self.n < LOG { self.log[self.n] = b; }
        self.n += 1;
        b
    }
}

impl RngCore for SymRng {
    fn next_u32(&mut self) -> u32 { let mut b = [0u8; 4]; self.fill_bytes(&mut b); u32::from_le_bytes(b) }
    fn next_u64(&mut self) -> u64 { let mut b = [0u8; 8]; self.fill_bytes(&mut b); u64::from_le_bytes(b) }
    fn fill_bytes(&mut self, dest: &mut [u8]) {
        self.calls += 1;
        crate::nd::assume(self.calls <= self.max_calls);
        let mut i = 0;
        while i < dest.len() { dest[i] = self.byte(); i += 1; }
    }
    fn try_fill_bytes(&mut self, dest: &mut [u8]) -> Result<(), Error> { self.fill_bytes(dest); Ok(()) }
}

/// range membership for all six entry points (W <= 16: the range multiplication is an exact multiplier)
#[macro_export]
macro_rules! c20_range {
    ($name:ident, $unw:expr, $T:ty, $D:ty, $N:expr) => {
        $crate::c20_range!($name, $unw, $T, $D, $N, any);
    };
    ($name:ident, $unw:expr, $T:ty, $D:ty, $N:expr, $gen:ident) => {
        $crate::harness!($name, $unw, {
            use $crate::util::*;
            use rand::Rng;
            use rand::distributions::{Distribution, Uniform};
            use rand::distributions::uniform::{UniformSampler, SampleUniform};
            const M: usize = $N + 1;
            const S: bool = <$T as BN<$D, $N>>::SIGNED;
            let (low, ld) = <$T as BN<$D, $N>>::$gen();
            let (high, hd) = <$T as BN<$D, $N>>::$gen();
            let (xl, xh) = (XD::<$D, M>::from_val(&ld, S), XD::<$D, M>::from_val(&hd, S));
            let c = xl.cmp(&xh);
            let sel: u8 = $crate::nd::nd();
            $crate::nd::assume(sel < 6);
            let incl = sel % 2 == 1;
            // exclusive forms need low < high, inclusive low <= high (anything else panics in rand / bnum by contract)
            $crate::nd::assume(if incl { c != core::cmp::Ordering::Greater } else { c == core::cmp::Ordering::Less });
            let mut rng = $crate::c20::SymRng::new(3);
            let r: $T = match sel {
                0 => rng.gen_range(low..high),
                1 => rng.gen_range(low..=high),
                2 => Uniform::new(low, high).sample(&mut rng),
                3 => Uniform::new_inclusive(low, high).sample(&mut rng),
                4 => <<$T as SampleUniform>::Sampler as UniformSampler>::sample_single(low, high, &mut rng),
                _ => <<$T as SampleUniform>::Sampler as UniformSampler>::sample_single_inclusive(low, high, &mut rng),
            };
            let xr = XD::<$D, M>::from_val(&r.dg(), S);
            assert!(xr.cmp(&xl) != core::cmp::Ordering::Less, "result >= low");
            let ch = xr.cmp(&xh);
            assert!(if incl { ch != core::cmp::Ordering::Greater } else { ch == core::cmp::Ordering::Less }, "result within the upper bound");
            $crate::reach!(sel == 0 && rng.calls == 2, "gen_range after one rejection");
            $crate::reach!(sel == 3 && S == (dneg(&ld) && !dneg(&hd)), "Uniform::new_inclusive, signed range spanning zero");
            $crate::reach!(sel == 5 && is_all_ones(&xh.sub(&xl).low::<$N>()), "full range (size wraps to 0)");
            $crate::reach!(sel == 1 && deq(&ld, &hd), "single-value range");
        });
    };
    // concrete bounds, symbolic RNG stream: the range multiplication is a multiplication by a constant, so types above 16 bits are within reach
    ($name:ident, $unw:expr, $T:ty, $D:ty, $N:expr, [$($lo:expr),*], [$($hi:expr),*]) => {
        $crate::harness!($name, $unw, {
            use $crate::util::*;
            use rand::Rng;
            use rand::distributions::{Distribution, Uniform};
            use rand::distributions::uniform::{UniformSampler, SampleUniform};
            const M: usize = $N + 1;
            const S: bool = <$T as BN<$D, $N>>::SIGNED;
            let ld: [$D; $N] = [$($lo),*];
            let hd: [$D; $N] = [$($hi),*];
            let (low, high) = (<$T as BN<$D, $N>>::mk(ld), <$T as BN<$D, $N>>::mk(hd));
            let (xl, xh) = (XD::<$D, M>::from_val(&ld, S), XD::<$D, M>::from_val(&hd, S));
            let c = xl.cmp(&xh);
            let sel: u8 = $crate::nd::nd();
            $crate::nd::assume(sel < 6);
            let incl = sel % 2 == 1;
            // exclusive forms need low < high, inclusive low <= high (anything else panics in rand / bnum by contract)
            $crate::nd::assume(if incl { c != core::cmp::Ordering::Greater } else { c == core::cmp::Ordering::Less });
            let mut rng = $crate::c20::SymRng::new(3);
            let r: $T = match sel {
                0 => rng.gen_range(low..high),
                1 => rng.gen_range(low..=high),
                2 => Uniform::new(low, high).sample(&mut rng),
                3 => Uniform::new_inclusive(low, high).sample(&mut rng),
                4 => <<$T as SampleUniform>::Sampler as UniformSampler>::sample_single(low, high, &mut rng),
                _ => <<$T as SampleUniform>::Sampler as UniformSampler>::sample_single_inclusive(low, high, &mut rng),
            };
            let xr = XD::<$D, M>::from_val(&r.dg(), S);
            assert!(xr.cmp(&xl) != core::cmp::Ordering::Less, "result >= low");
            let ch = xr.cmp(&xh);
            assert!(if incl { ch != core::cmp::Ordering::Greater } else { ch == core::cmp::Ordering::Less }, "result within the upper bound");
            $crate::reach!(sel == 0 && rng.calls >= 1, "gen_range");
            $crate::reach!(sel == 5, "sample_single_inclusive");
        });
    };
}

/// unbiasedness: the accepted RNG words mapping to offset h form the first K words of the block of words whose
/// product with the range has high part h, with the same K for every h.  Stated relationally (no K fixed):
///   for all h1, h2, k:  [word L(h1)+k is accepted with offset h1]  <=>  [word L(h2)+k is accepted with offset h2]
/// where L(h) = ceil(h * 2^W / R) is the first word of block h.  Equal preimage counts follow.  W = 8 / 16.
#[macro_export]
macro_rules! c20_unbiased {
    ($name:ident, $unw:expr, $T:ty, $D:ty, $N:expr, $single:expr) => {
        $crate::harness!($name, $unw, {
            use $crate::util::*;
            use rand::distributions::{Distribution, Uniform};
            use rand::distributions::uniform::{UniformSampler, SampleUniform};
            const W: u32 = <$D>::BITS * $N;
            let (low, ld) = <$T as BN<$D, $N>>::any();
            let (high, hd) = <$T as BN<$D, $N>>::any();
            let mask: u32 = (1u32 << W) - 1;
            let (lv, hv) = (dval_u128(&ld) as u32, dval_u128(&hd) as u32);
            // range size R = high - low + 1 in 1..2^W (the wrapped difference is correct for signed bounds too)
            let rsize = (hv.wrapping_sub(lv) & mask) + 1;
            $crate::nd::assume(rsize <= mask); // full range has no rejection at all
            if <$T as BN<$D, $N>>::SIGNED { $crate::nd::assume(dval_i128(&ld) <= dval_i128(&hd)); } else { $crate::nd::assume(lv <= hv); }
            let (h1, h2, k): (u32, u32, u32) = ($crate::nd::nd(), $crate::nd::nd(), $crate::nd::nd());
            $crate::nd::assume(h1 < rsize && h2 < rsize && k <= mask);
            let first = |h: u32| -> u32 { (((h as u64) << W) + rsize as u64 - 1) as u32 / rsize }; // ceil(h * 2^W / R), fits u32 for W <= 16
            let (w1, w2) = (first(h1) + k, first(h2) + k);
            // run the real sampler on a stream whose first word is w; accepted-with-offset-h <=> one draw and result == low + h
            let run = |w: u32, h: u32| -> bool {
                if w > mask { return false; }
                let mut rng = $crate::c20::SymRng::new(2);
                let mut fed = false;
                let r: $T = {
                    // first draw forced to w: assume the recorded bytes equal w afterwards
                    let r = if $single { <<$T as SampleUniform>::Sampler as UniformSampler>::sample_single_inclusive(low, high, &mut rng) }
                            else { Uniform::new_inclusive(low, high).sample(&mut rng) };
                    let mut word = 0u32;
                    let mut b = 0;
                    while b < (W / 8) as usize { word |= (rng.log[b] as u32) << (8 * b as u32); b += 1; }
                    $crate::nd::assume(word == w);
                    fed = true;
                    r
                };
                let _ = fed;
                rng.calls == 1 && (dval_u128(&r.dg()) as u32) == (lv.wrapping_add(h) & mask)
            };
            let a1 = run(w1, h1);
            let a2 = run(w2, h2);
            assert!(a1 == a2, "every offset has the same number of accepted RNG words");
            $crate::reach!(a1 && h1 != h2 && k > 0, "accepted pair");
            $crate::reach!(!a1 && w1 <= mask && w2 <= mask && h1 != h2, "rejected pair");
        });
    };
}

/// Standard sampling and slice fill: every digit comes from the RNG stream in little-endian order
#[macro_export]
macro_rules! c20_fill {
    ($name:ident, $unw:expr, $U:ty, $I:ty, $D:ty, $N:expr) => {
        $crate::harness!($name, $unw, {
            use $crate::util::*;
            use rand::Rng;
            const BYTES: usize = (<$D>::BITS as usize / 8) * $N;
            let q: usize = $crate::nd::nd();
            $crate::nd::assume(q < BYTES);
            let mut rng = $crate::c20::SymRng::new(1);
            let u: $U = rng.gen();
            assert!(rng.n == BYTES && dbyte(&u.dg(), q) == rng.log[q], "Standard: byte q of the value is byte q of the stream (little endian)");
            let mut rng = $crate::c20::SymRng::new(1);
            let s: $I = rng.gen();
            assert!(rng.n == BYTES && dbyte(&s.dg(), q) == rng.log[q], "Standard (signed)");
            // slice fill of length 0..=3 equals filling each element in turn from the same stream
            let len: usize = $crate::nd::nd();
            $crate::nd::assume(len <= 3);
            let j: usize = $crate::nd::nd();
            $crate::nd::assume(j < 3);
            let mut arr = [<$U>::ZERO; 3];
            let mut rng = $crate::c20::SymRng::new(1);
            assert!(bnum::random::try_fill_slice(&mut arr[..len], &mut rng).is_ok());
            assert!(rng.n == len * BYTES, "consumes exactly len * BYTES bytes");
            if j < len { assert!(dbyte(&arr[j].dg(), q) == rng.log[j * BYTES + q], "element j, byte q comes from stream byte j*BYTES+q"); }
            else { assert!(arr[j].is_zero(), "elements beyond the slice untouched"); }
            let mut sarr = [<$I>::ZERO; 3];
            let mut rng = $crate::c20::SymRng::new(1);
            assert!(bnum::random::try_fill_slice(&mut sarr[..len], &mut rng).is_ok());
            if j < len { assert!(dbyte(&sarr[j].dg(), q) == rng.log[j * BYTES + q], "signed slice fill"); }
            $crate::reach!(len == 3 && j == 2, "three elements");
            $crate::reach!(len == 0, "empty slice");
        });
    };
}

/// unbiasedness for CONCRETE bounds on 32- and 64-bit types (the range multiplication is a multiplication by a constant; the relational statement is
/// the one of `c20_unbiased`): word L(h1)+k is accepted with offset h1 iff word L(h2)+k is accepted with offset h2, L(h) = ceil(h * 2^W / R).
#[macro_export]
macro_rules! c20_unbiased_conc {
    ($name:ident, $unw:expr, $T:ty, $D:ty, $N:expr, $single:expr, [$($lo:expr),*], [$($hi:expr),*]) => {
        $crate::harness!($name, $unw, {
            use $crate::util::*;
            use rand::distributions::{Distribution, Uniform};
            use rand::distributions::uniform::{UniformSampler, SampleUniform};
            const W: u32 = <$D>::BITS * $N;
            let ld: [$D; $N] = [$($lo),*];
            let hd: [$D; $N] = [$($hi),*];
            let (low, high) = (<$T as BN<$D, $N>>::mk(ld), <$T as BN<$D, $N>>::mk(hd));
            let mask: u128 = (1u128 << W) - 1;
            let (lv, hv) = (dval_u128(&ld), dval_u128(&hd));
            let rsize: u128 = (hv.wrapping_sub(lv) & mask) + 1; // 1..2^W - 1 (the full range is not used here)
            let (h1, h2, k): (u64, u64, u64) = ($crate::nd::nd(), $crate::nd::nd(), $crate::nd::nd());
            $crate::nd::assume((h1 as u128) < rsize && (h2 as u128) < rsize && (k as u128) <= mask);
            // L(h) = ceil(h * 2^W / R), introduced as a fresh value with its defining inequalities (multiplications by the constant R instead of a 128-bit division)
            let first = |h: u64| -> u128 {
                let l: u128 = $crate::nd::nd();
                $crate::nd::assume(l <= mask + 1);
                $crate::nd::assume(l * rsize >= (h as u128) << W);
                $crate::nd::assume(l == 0 || (l - 1) * rsize < (h as u128) << W);
                l
            };
            let (w1, w2) = (first(h1) + k as u128, first(h2) + k as u128);
            let run = |w: u128, h: u64| -> bool {
                if w > mask { return false; }
                let mut rng = $crate::c20::SymRng::new(2);
                let r: $T = if $single { <<$T as SampleUniform>::Sampler as UniformSampler>::sample_single_inclusive(low, high, &mut rng) }
                            else { Uniform::new_inclusive(low, high).sample(&mut rng) };
                let mut word = 0u128;
                let mut b = 0;
                while b < (W / 8) as usize { word |= (rng.log[b] as u128) << (8 * b as u32); b += 1; }
                $crate::nd::assume(word == w);
                rng.calls == 1 && dval_u128(&r.dg()) == (lv.wrapping_add(h as u128) & mask)
            };
            let a1 = run(w1, h1);
            let a2 = run(w2, h2);
            assert!(a1 == a2, "every offset has the same number of accepted RNG words");
            $crate::reach!(a1 && h1 != h2 && k > 0, "accepted pair");
            $crate::reach!(!a1 && w1 <= mask && w2 <= mask && h1 != h2, "rejected pair");
        });
    };
}
