//! C19 - num_traits numeric conversions return Some exactly for representable values.
//! Oracle: range test of the exact source value against the target width (bit-indexed for the value), the
//! independent IEEE decode of util.rs for from_f32/from_f64, and the C14 / C09 casts for to_f* / as_.

#[macro_export]
macro_rules! c19_from_prim {
    ($name:ident, $unw:expr, $T:ty, $D:ty, $N:expr) => {
        $crate::harness!($name, $unw, {
            use $crate::util::*;
            use num_traits::FromPrimitive;
            const W: u32 = <$D>::BITS * $N;
            const S: bool = <$T as BN<$D, $N>>::SIGNED;
            let i: u32 = $crate::nd::nd();
            $crate::nd::assume(i < W);
            macro_rules! one {
                ($P:ty, $m:ident) => {{
                    let p: $P = $crate::nd::nd();
                    // representable: the sign-/zero-extended pattern of p has all bits above the target value range equal to its sign
                    let neg = p.pneg();
                    let lo = if S { W - 1 } else { W };
                    let fits = (S || !neg) && p.high_is_sign(lo);
                    match <$T as FromPrimitive>::$m(p) {
                        Some(t) => { assert!(fits, "Some only when representable"); assert!(dbit(&t.dg(), i) == p.pbit(i), "same value"); }
                        None => assert!(!fits, "None only when not representable"),
                    }
                }};
            }
            one!(u8, from_u8); one!(u16, from_u16); one!(u32, from_u32); one!(u64, from_u64); one!(u128, from_u128); one!(usize, from_usize);
            one!(i8, from_i8); one!(i16, from_i16); one!(i32, from_i32); one!(i64, from_i64); one!(i128, from_i128); one!(isize, from_isize);
        });
    };
}

#[macro_export]
macro_rules! c19_from_float {
    ($name:ident, $unw:expr, $T:ty, $D:ty, $N:expr) => {
        $crate::harness!($name, $unw, {
            use $crate::util::*;
            use num_traits::FromPrimitive;
            const W: u32 = <$D>::BITS * $N;
            const S: bool = <$T as BN<$D, $N>>::SIGNED;
            let i: u32 = $crate::nd::nd();
            $crate::nd::assume(i < W);
            macro_rules! one {
                ($dec:expr, $r:expr) => {{
                    let (neg, class, m, e) = $dec;
                    let r: Option<$T> = $r;
                    if class != FClass::Finite {
                        assert!(r.is_none(), "NaN / infinity -> None");
                    } else {
                        let l = mag_bits(m, e) as u32; // bit length of the truncated magnitude M
                        // truncated value in range?  unsigned: M < 2^W.  signed: M < 2^(W-1), or M == 2^(W-1) when negative
                        let m_is_pow2_top = l == W && !mag_any_below(m, e, W - 1);
                        let in_range = if !S { l <= W } else { l <= W - 1 || (neg && m_is_pow2_top) };
                        if !in_range {
                            assert!(r.is_none(), "out of range -> None");
                        } else if S || !neg {
                            // finite, truncated value in range, and (unsigned target) not negative  =>  Some(trunc)
                            let t = match r { Some(t) => t, None => { assert!(false, "in-range finite float must give Some"); return; } };
                            let e_bit = if neg { mag_bit(m, e, i) != mag_any_below(m, e, i) } else { mag_bit(m, e, i) };
                            assert!(dbit(&t.dg(), i) == e_bit, "Some(value truncated toward zero)");
                        }
                        // negative floats into unsigned targets: left unconstrained by the property (only: no panic)
                        $crate::reach!(!S || (in_range && neg && l > 1), "negative in range");
                        $crate::reach!(!in_range || W >= 128, "out of range");
                    }
                }};
            }
            let b32: u32 = $crate::nd::nd();
            one!(decode32(b32), <$T as FromPrimitive>::from_f32(f32::from_bits(b32)));
            let b64: u64 = $crate::nd::nd();
            one!(decode64(b64), <$T as FromPrimitive>::from_f64(f64::from_bits(b64)));
        });
    };
}

#[macro_export]
macro_rules! c19_to_prim {
    ($name:ident, $unw:expr, $T:ty, $D:ty, $N:expr) => {
        $crate::harness!($name, $unw, {
            use $crate::util::*;
            use bnum::cast::As;
            use num_traits::{AsPrimitive, ToPrimitive};
            const S: bool = <$T as BN<$D, $N>>::SIGNED;
            let (x, xd) = <$T as BN<$D, $N>>::any();
            macro_rules! one {
                ($P:ty, $m:ident) => {{
                    let j: u32 = $crate::nd::nd();
                    $crate::nd::assume(j < <$P>::BITS);
                    let fits = fits_in(&xd, S, <$P>::BITS, <$P as Prim>::PSIGNED);
                    match ToPrimitive::$m(&x) {
                        Some(p) => { assert!(fits, "Some only when the value fits"); assert!(p.pbit(j) == xbit(&xd, S, j), "same value"); }
                        None => assert!(!fits, "None only when it does not fit"),
                    }
                    let a: $P = AsPrimitive::<$P>::as_(x);
                    let c: $P = As::as_::<$P>(x);
                    assert!(a == c, "AsPrimitive::as_ == As cast");
                    let back: $T = AsPrimitive::<$T>::as_(a);
                    let back2: $T = As::as_::<$T>(a);
                    assert!(deq(&back.dg(), &back2.dg()), "AsPrimitive (primitive -> bnum) == As cast");
                }};
            }
            one!(u8, to_u8); one!(u16, to_u16); one!(u32, to_u32); one!(u64, to_u64); one!(u128, to_u128); one!(usize, to_usize);
            one!(i8, to_i8); one!(i16, to_i16); one!(i32, to_i32); one!(i64, to_i64); one!(i128, to_i128); one!(isize, to_isize);
            let f: f32 = As::as_::<f32>(x);
            let g: f64 = As::as_::<f64>(x);
            assert!(ToPrimitive::to_f32(&x).map(|v| v.to_bits()) == Some(f.to_bits()), "to_f32 always Some(nearest float)");
            assert!(ToPrimitive::to_f64(&x).map(|v| v.to_bits()) == Some(g.to_bits()), "to_f64 always Some(nearest float)");
            assert!(AsPrimitive::<f32>::as_(x).to_bits() == f.to_bits() && AsPrimitive::<f64>::as_(x).to_bits() == g.to_bits());
            $crate::reach!(dneg(&xd), "top bit set");
        });
    };
}
