//! Oracle-side helpers.  Nothing here calls into bnum: values are taken from / given to bnum only as raw
//! digit arrays (`from_digits` / `digits()`), and all reference arithmetic is byte-wise ripple arithmetic on
//! little-endian byte arrays, written for obviousness.

use core::cmp::Ordering;

pub trait Dig: Copy + crate::nd::Nd + PartialEq + core::fmt::Debug {
    const BYTES: usize;
    const BITS: u32;
    const ZERO: Self;
    const MAXD: Self;
    fn byte(self, k: usize) -> u8;
    fn from_le(b: &[u8]) -> Self;
    fn to_u64(self) -> u64;
    fn from_u64(v: u64) -> Self;
}
macro_rules! dig {
    ($($t:ty),*) => {$(
        impl Dig for $t {
            const BYTES: usize = core::mem::size_of::<$t>();
            const BITS: u32 = <$t>::BITS;
            const ZERO: Self = 0;
            const MAXD: Self = <$t>::MAX;
            #[inline(always)] fn byte(self, k: usize) -> u8 { (self >> (8 * k as u32)) as u8 }
            #[inline(always)] fn from_le(b: &[u8]) -> Self {
                let mut v: $t = 0;
                let mut k = 0;
                while k < Self::BYTES { v |= (b[k] as $t) << (8 * k as u32); k += 1; }
                v
            }
            #[inline(always)] fn to_u64(self) -> u64 { self as u64 }
            #[inline(always)] fn from_u64(v: u64) -> Self { v as $t }
        }
    )*};
}
dig!(u8, u16, u32, u64);

/// little-endian bytes of a digit array
#[inline(always)]
pub fn to_bytes<D: Dig, const N: usize, const B: usize>(d: &[D; N]) -> [u8; B] {
    let mut out = [0u8; B];
    let mut i = 0;
    while i < B {
        out[i] = d[i / D::BYTES].byte(i % D::BYTES);
        i += 1;
    }
    out
}

/// digit array from little-endian bytes
#[inline(always)]
pub fn to_digits<D: Dig, const N: usize, const B: usize>(b: &[u8; B]) -> [D; N] {
    let mut out = [D::ZERO; N];
    let mut i = 0;
    while i < N {
        out[i] = D::from_le(&b[i * D::BYTES..(i + 1) * D::BYTES]);
        i += 1;
    }
    out
}

/// Digit over the 8-value boundary alphabet {0,1,2,B/2-1,B/2,B/2+1,B-2,B-1}, selected by a symbolic 3-bit code.
#[inline(always)]
pub fn alpha<D: Dig>() -> D {
    let c: u8 = crate::nd::nd();
    crate::nd::assume(c < 8);
    let half = 1u64 << (D::BITS - 1);
    let max = D::MAXD.to_u64();
    let v = match c {
        0 => 0,
        1 => 1,
        2 => 2,
        3 => half - 1,
        4 => half,
        5 => half + 1,
        6 => max - 1,
        _ => max,
    };
    D::from_u64(v)
}

#[inline(always)]
pub fn alpha_digits<D: Dig, const N: usize>() -> [D; N] {
    core::array::from_fn(|_| alpha::<D>())
}

#[inline(always)]
pub fn bit<const B: usize>(a: &[u8; B], i: usize) -> bool {
    (a[i / 8] >> (i % 8)) & 1 == 1
}

#[inline(always)]
pub fn bytes_eq<const B: usize>(a: &[u8; B], b: &[u8; B]) -> bool {
    let mut i = 0;
    let mut eq = true;
    while i < B {
        eq &= a[i] == b[i];
        i += 1;
    }
    eq
}

#[inline(always)]
pub fn is_zero<const B: usize>(a: &[u8; B]) -> bool {
    let mut i = 0;
    let mut z = true;
    while i < B {
        z &= a[i] == 0;
        i += 1;
    }
    z
}

#[inline(always)]
pub fn u128_of<const B: usize>(a: &[u8; B]) -> u128 {
    let mut v = 0u128;
    let mut i = 0;
    while i < B && i < 16 {
        v |= (a[i] as u128) << (8 * i as u32);
        i += 1;
    }
    v
}
/// sign-extended reading (B <= 16)
#[inline(always)]
pub fn i128_of<const B: usize>(a: &[u8; B]) -> i128 {
    let v = u128_of(a);
    if B >= 16 { return v as i128; }
    let sh = 128 - 8 * B as u32;
    ((v << sh) as i128) >> sh
}
#[inline(always)]
pub fn bytes_of_u128<const B: usize>(v: u128) -> [u8; B] {
    let mut out = [0u8; B];
    let mut i = 0;
    while i < B {
        out[i] = if i < 16 { (v >> (8 * i as u32)) as u8 } else { 0 };
        i += 1;
    }
    out
}
#[inline(always)]
pub fn bytes_of_i128<const B: usize>(v: i128) -> [u8; B] {
    let mut out = [0u8; B];
    let mut i = 0;
    while i < B {
        out[i] = if i < 16 { (v >> (8 * i as u32)) as u8 } else if v < 0 { 0xff } else { 0 };
        i += 1;
    }
    out
}

/// Exact integer in W-byte two's complement.  W is chosen by the instantiation so that no operation used
/// on it can overflow (W = B + 2 for sums/differences of B-byte values).
#[derive(Clone, Copy)]
pub struct X<const W: usize>(pub [u8; W]);

impl<const W: usize> X<W> {
    #[inline(always)]
    pub fn zero() -> Self { X([0u8; W]) }
    #[inline(always)]
    pub fn small(v: i8) -> Self {
        let mut o = [if v < 0 { 0xffu8 } else { 0 }; W];
        o[0] = v as u8;
        X(o)
    }
    /// zero-extend an unsigned B-byte value
    #[inline(always)]
    pub fn from_u<const B: usize>(a: &[u8; B]) -> Self {
        let mut o = [0u8; W];
        let mut i = 0;
        while i < B { o[i] = a[i]; i += 1; }
        X(o)
    }
    /// sign-extend a signed B-byte value
    #[inline(always)]
    pub fn from_s<const B: usize>(a: &[u8; B]) -> Self {
        let fill = if a[B - 1] & 0x80 != 0 { 0xffu8 } else { 0 };
        let mut o = [fill; W];
        let mut i = 0;
        while i < B { o[i] = a[i]; i += 1; }
        X(o)
    }
    #[inline(always)]
    pub fn from_val<const B: usize>(a: &[u8; B], signed: bool) -> Self {
        if signed { Self::from_s(a) } else { Self::from_u(a) }
    }
    #[inline(always)]
    pub fn is_neg(&self) -> bool { self.0[W - 1] & 0x80 != 0 }
    #[inline(always)]
    pub fn is_zero(&self) -> bool { is_zero(&self.0) }
    #[inline(always)]
    pub fn add(&self, o: &Self) -> Self {
        let mut r = [0u8; W];
        let mut c = 0u16;
        let mut i = 0;
        while i < W {
            let s = self.0[i] as u16 + o.0[i] as u16 + c;
            r[i] = s as u8;
            c = s >> 8;
            i += 1;
        }
        X(r)
    }
    #[inline(always)]
    pub fn not(&self) -> Self {
        let mut r = [0u8; W];
        let mut i = 0;
        while i < W { r[i] = !self.0[i]; i += 1; }
        X(r)
    }
    #[inline(always)]
    pub fn neg(&self) -> Self { self.not().add(&Self::small(1)) }
    #[inline(always)]
    pub fn sub(&self, o: &Self) -> Self { self.add(&o.neg()) }
    #[inline(always)]
    pub fn abs(&self) -> Self { if self.is_neg() { self.neg() } else { *self } }
    /// signed comparison
    #[inline(always)]
    pub fn cmp(&self, o: &Self) -> Ordering {
        let d = self.sub(o); // cannot overflow by choice of W
        if d.is_zero() { Ordering::Equal } else if d.is_neg() { Ordering::Less } else { Ordering::Greater }
    }
    #[inline(always)]
    pub fn lt(&self, o: &Self) -> bool { self.cmp(o) == Ordering::Less }
    /// floor(self / 2)
    #[inline(always)]
    pub fn half_floor(&self) -> Self {
        let mut r = [0u8; W];
        let mut i = 0;
        while i < W {
            let hi = if i + 1 < W { self.0[i + 1] } else if self.is_neg() { 0xff } else { 0 };
            r[i] = (self.0[i] >> 1) | (hi << 7);
            i += 1;
        }
        X(r)
    }
    #[inline(always)]
    pub fn is_odd(&self) -> bool { self.0[0] & 1 == 1 }
    /// value lies in [0, 2^(8B))
    #[inline(always)]
    pub fn fits_u<const B: usize>(&self) -> bool {
        let mut ok = true;
        let mut i = B;
        while i < W { ok &= self.0[i] == 0; i += 1; }
        ok
    }
    /// value lies in [-2^(8B-1), 2^(8B-1))
    #[inline(always)]
    pub fn fits_s<const B: usize>(&self) -> bool {
        let fill = if self.0[B - 1] & 0x80 != 0 { 0xffu8 } else { 0 };
        let mut ok = true;
        let mut i = B;
        while i < W { ok &= self.0[i] == fill; i += 1; }
        ok
    }
    #[inline(always)]
    pub fn fits<const B: usize>(&self, signed: bool) -> bool {
        if signed { self.fits_s::<B>() } else { self.fits_u::<B>() }
    }
    /// the value reduced mod 2^(8B)
    #[inline(always)]
    pub fn low<const B: usize>(&self) -> [u8; B] {
        let mut o = [0u8; B];
        let mut i = 0;
        while i < B { o[i] = self.0[i]; i += 1; }
        o
    }
}

#[inline(always)]
pub fn max_u<const B: usize>() -> [u8; B] { [0xff; B] }
#[inline(always)]
pub fn max_s<const B: usize>() -> [u8; B] { let mut o = [0xff; B]; o[B - 1] = 0x7f; o }
#[inline(always)]
pub fn min_s<const B: usize>() -> [u8; B] { let mut o = [0; B]; o[B - 1] = 0x80; o }

/// clamp an exact value into the B-byte range
#[inline(always)]
pub fn saturate<const B: usize, const W: usize>(x: &X<W>, signed: bool) -> [u8; B] {
    if x.fits::<B>(signed) {
        x.low::<B>()
    } else if x.is_neg() {
        if signed { min_s::<B>() } else { [0; B] }
    } else if signed {
        max_s::<B>()
    } else {
        max_u::<B>()
    }
}

// ------------------------------------------------------------------------------------------------
// digit-level helpers: loop counts bounded by the digit count N (never by the byte count), so the
// harness unwind bound can stay at N + 2 - CBMC unrolls bnum's symbolic-start loops up to the bound.

/// bit i of a little-endian digit array (no loop)
#[inline(always)]
pub fn dbit<D: Dig, const N: usize>(d: &[D; N], i: u32) -> bool {
    (d[(i / D::BITS) as usize].to_u64() >> (i % D::BITS)) & 1 == 1
}
/// byte k of a little-endian digit array (no loop)
#[inline(always)]
pub fn dbyte<D: Dig, const N: usize>(d: &[D; N], k: usize) -> u8 {
    d[k / D::BYTES].byte(k % D::BYTES)
}
/// digit-wise equality (N iterations; `==` on bnum values is a memcmp loop over the bytes under Kani)
#[inline(always)]
pub fn deq<D: Dig, const N: usize>(a: &[D; N], b: &[D; N]) -> bool {
    let mut i = 0;
    let mut eq = true;
    while i < N {
        eq &= a[i] == b[i];
        i += 1;
    }
    eq
}
#[inline(always)]
pub fn dzero<D: Dig, const N: usize>(a: &[D; N]) -> bool {
    let mut i = 0;
    let mut z = true;
    while i < N {
        z &= a[i] == D::ZERO;
        i += 1;
    }
    z
}
#[inline(always)]
pub fn dneg<D: Dig, const N: usize>(a: &[D; N]) -> bool {
    a[N - 1].to_u64() >> (D::BITS - 1) == 1
}

/// Exact integer in M-digit two's complement, M = N + 1 (enough for sums / differences of N-digit values
/// with a carry, negation, abs).  Loops run M times.
#[derive(Clone, Copy)]
pub struct XD<D: Dig, const M: usize>(pub [D; M]);

impl<D: Dig, const M: usize> XD<D, M> {
    #[inline(always)]
    pub fn small(v: i8) -> Self {
        let mut o = [if v < 0 { D::MAXD } else { D::ZERO }; M];
        o[0] = D::from_u64((v as i64) as u64);
        XD(o)
    }
    #[inline(always)]
    pub fn from_u<const N: usize>(a: &[D; N]) -> Self {
        let mut o = [D::ZERO; M];
        let mut i = 0;
        while i < N { o[i] = a[i]; i += 1; }
        XD(o)
    }
    #[inline(always)]
    pub fn from_s<const N: usize>(a: &[D; N]) -> Self {
        let mut o = [if dneg(a) { D::MAXD } else { D::ZERO }; M];
        let mut i = 0;
        while i < N { o[i] = a[i]; i += 1; }
        XD(o)
    }
    #[inline(always)]
    pub fn from_val<const N: usize>(a: &[D; N], signed: bool) -> Self {
        if signed { Self::from_s(a) } else { Self::from_u(a) }
    }
    #[inline(always)]
    pub fn is_neg(&self) -> bool { dneg(&self.0) }
    #[inline(always)]
    pub fn is_zero(&self) -> bool { dzero(&self.0) }
    #[inline(always)]
    pub fn add(&self, o: &Self) -> Self {
        let mut r = [D::ZERO; M];
        let mut c = 0u128;
        let mut i = 0;
        while i < M {
            let s = self.0[i].to_u64() as u128 + o.0[i].to_u64() as u128 + c;
            r[i] = D::from_u64(s as u64);
            c = s >> D::BITS;
            i += 1;
        }
        XD(r)
    }
    #[inline(always)]
    pub fn not(&self) -> Self {
        let mut r = [D::ZERO; M];
        let mut i = 0;
        while i < M { r[i] = D::from_u64(!self.0[i].to_u64()); i += 1; }
        XD(r)
    }
    #[inline(always)]
    pub fn neg(&self) -> Self { self.not().add(&Self::small(1)) }
    #[inline(always)]
    pub fn sub(&self, o: &Self) -> Self { self.add(&o.neg()) }
    #[inline(always)]
    pub fn abs(&self) -> Self { if self.is_neg() { self.neg() } else { *self } }
    #[inline(always)]
    pub fn cmp(&self, o: &Self) -> Ordering {
        let d = self.sub(o);
        if d.is_zero() { Ordering::Equal } else if d.is_neg() { Ordering::Less } else { Ordering::Greater }
    }
    #[inline(always)]
    pub fn half_floor(&self) -> Self {
        let mut r = [D::ZERO; M];
        let mut i = 0;
        while i < M {
            let hi = if i + 1 < M { self.0[i + 1].to_u64() } else if self.is_neg() { u64::MAX } else { 0 };
            r[i] = D::from_u64((self.0[i].to_u64() >> 1) | (hi << (D::BITS - 1)));
            i += 1;
        }
        XD(r)
    }
    #[inline(always)]
    pub fn is_odd(&self) -> bool { self.0[0].to_u64() & 1 == 1 }
    /// in [0, 2^(N digits))  (M = N + 1)
    #[inline(always)]
    pub fn fits_u(&self) -> bool { self.0[M - 1] == D::ZERO }
    /// in the signed N-digit range
    #[inline(always)]
    pub fn fits_s(&self) -> bool {
        let sign = self.0[M - 2].to_u64() >> (D::BITS - 1) == 1;
        self.0[M - 1] == if sign { D::MAXD } else { D::ZERO }
    }
    #[inline(always)]
    pub fn fits(&self, signed: bool) -> bool { if signed { self.fits_s() } else { self.fits_u() } }
    #[inline(always)]
    pub fn low<const N: usize>(&self) -> [D; N] {
        let mut o = [D::ZERO; N];
        let mut i = 0;
        while i < N { o[i] = self.0[i]; i += 1; }
        o
    }
    /// clamp into the N-digit range
    #[inline(always)]
    pub fn saturate<const N: usize>(&self, signed: bool) -> [D; N] {
        if self.fits(signed) {
            self.low::<N>()
        } else if self.is_neg() {
            let mut o = [D::ZERO; N];
            if signed { o[N - 1] = D::from_u64(1u64 << (D::BITS - 1)); }
            o
        } else {
            let mut o = [D::MAXD; N];
            if signed { o[N - 1] = D::from_u64(D::MAXD.to_u64() >> 1); }
            o
        }
    }
}

// ------------------------------------------------------------------------------------------------
/// Raw digit-array view of the eight bnum integer families (the only glue between bnum values and oracles).
pub trait BN<D: Dig, const N: usize>: Copy {
    const SIGNED: bool;
    fn mk(d: [D; N]) -> Self;
    fn dg(&self) -> [D; N];
    /// fully symbolic value
    #[inline(always)]
    fn any() -> (Self, [D; N]) {
        let d: [D; N] = crate::nd::nd();
        (Self::mk(d), d)
    }
    /// value whose digits range over the boundary alphabet
    #[inline(always)]
    fn any_alpha() -> (Self, [D; N]) {
        let d: [D; N] = alpha_digits::<D, N>();
        (Self::mk(d), d)
    }
}
macro_rules! bn {
    ($U:ident, $I:ident, $D:ty) => {
        impl<const N: usize> BN<$D, N> for bnum::$U<N> {
            const SIGNED: bool = false;
            #[inline(always)] fn mk(d: [$D; N]) -> Self { Self::from_digits(d) }
            #[inline(always)] fn dg(&self) -> [$D; N] { *self.digits() }
        }
        impl<const N: usize> BN<$D, N> for bnum::$I<N> {
            const SIGNED: bool = true;
            #[inline(always)] fn mk(d: [$D; N]) -> Self { Self::from_bits(bnum::$U::<N>::from_digits(d)) }
            #[inline(always)] fn dg(&self) -> [$D; N] { *self.to_bits().digits() }
        }
    };
}
bn!(BUintD8, BIntD8, u8);
bn!(BUintD16, BIntD16, u16);
bn!(BUintD32, BIntD32, u32);
bn!(BUint, BInt, u64);

// ------------------------------------------------------------------------------------------------
/// primitive integers as bit patterns (for cast / conversion specifications)
pub trait Prim: Copy + crate::nd::Nd + PartialEq + core::fmt::Debug {
    const PBITS: u32;
    const PSIGNED: bool;
    /// bit i of the two's-complement pattern, sign-/zero-extended beyond the width
    fn pbit(self, i: u32) -> bool;
    fn pneg(self) -> bool;
    /// are all bits at positions >= lo equal to the sign (0 for unsigned)?  i.e. |value| fits below bit lo
    fn high_is_sign(self, lo: u32) -> bool;
}
macro_rules! prim {
    ($($t:ty : $s:expr),*) => {$(
        impl Prim for $t {
            const PBITS: u32 = <$t>::BITS;
            const PSIGNED: bool = $s;
            #[inline(always)] fn pbit(self, i: u32) -> bool {
                if i < <$t>::BITS { (self >> i) & 1 == 1 } else { self.pneg() }
            }
            #[allow(unused_comparisons)]
            #[inline(always)] fn pneg(self) -> bool { self < 0 }
            #[allow(unused_comparisons)]
            #[inline(always)] fn high_is_sign(self, lo: u32) -> bool {
                // `>>` is arithmetic for signed primitives: the remaining bits are all-sign exactly when the result is 0 / -1
                lo >= <$t>::BITS || (self >> lo) == if self < 0 { !0 } else { 0 }
            }
        }
    )*};
}
prim!(u8: false, u16: false, u32: false, u64: false, u128: false, usize: false, i8: true, i16: true, i32: true, i64: true, i128: true, isize: true);

/// bit i of a digit array read as a (signed or unsigned) integer, extended beyond its width
#[inline(always)]
pub fn xbit<D: Dig, const N: usize>(d: &[D; N], signed: bool, i: u32) -> bool {
    if i < D::BITS * N as u32 { dbit(d, i) } else { signed && dneg(d) }
}

/// Does the integer denoted by `src` (signed or unsigned reading) lie in the range of a `wt`-bit target?
/// All bits at positions >= lo (lo = wt for an unsigned target, wt - 1 for a signed one) of the infinitely
/// extended source pattern must equal the source sign, and an unsigned target needs a non-negative source.
#[inline(always)]
pub fn fits_in<D: Dig, const N: usize>(src: &[D; N], s_signed: bool, wt: u32, t_signed: bool) -> bool {
    let neg = s_signed && dneg(src);
    if !t_signed && neg { return false; }
    let lo = if t_signed { wt - 1 } else { wt };
    let mut ok = true;
    let mut k = 0;
    while k < N {
        let base = k as u32 * D::BITS;
        if base + D::BITS > lo {
            let mask: u64 = if base >= lo { D::MAXD.to_u64() } else { (D::MAXD.to_u64() << (lo - base)) & D::MAXD.to_u64() };
            let want = if neg { mask } else { 0 };
            ok &= src[k].to_u64() & mask == want;
        }
        k += 1;
    }
    ok
}

// ------------------------------------------------------------------------------------------------
/// value of an N-digit array (at most 128 bits) as u128 / sign-extended i128
#[inline(always)]
pub fn dval_u128<D: Dig, const N: usize>(d: &[D; N]) -> u128 {
    let mut v = 0u128;
    let mut i = 0;
    while i < N {
        v |= (d[i].to_u64() as u128) << (i as u32 * D::BITS);
        i += 1;
    }
    v
}
#[inline(always)]
pub fn dval_i128<D: Dig, const N: usize>(d: &[D; N]) -> i128 {
    let w = D::BITS * N as u32;
    let v = dval_u128(d);
    if w >= 128 { v as i128 } else { ((v << (128 - w)) as i128) >> (128 - w) }
}

/// IEEE-754 value decoded independently of bnum: (negative, class, m, e) with magnitude = m * 2^e, m integer
#[derive(Clone, Copy, PartialEq)]
pub enum FClass { Nan, Inf, Finite }
#[inline(always)]
pub fn decode32(b: u32) -> (bool, FClass, u64, i32) {
    let neg = b >> 31 == 1;
    let ex = ((b >> 23) & 0xff) as i32;
    let fr = (b & 0x7f_ffff) as u64;
    if ex == 255 { return (neg, if fr != 0 { FClass::Nan } else { FClass::Inf }, 0, 0); }
    if ex == 0 { (neg, FClass::Finite, fr, 1 - 127 - 23) } else { (neg, FClass::Finite, fr | (1 << 23), ex - 127 - 23) }
}
#[inline(always)]
pub fn decode64(b: u64) -> (bool, FClass, u64, i32) {
    let neg = b >> 63 == 1;
    let ex = ((b >> 52) & 0x7ff) as i32;
    let fr = b & ((1u64 << 52) - 1);
    if ex == 2047 { return (neg, if fr != 0 { FClass::Nan } else { FClass::Inf }, 0, 0); }
    if ex == 0 { (neg, FClass::Finite, fr, 1 - 1023 - 52) } else { (neg, FClass::Finite, fr | (1 << 52), ex - 1023 - 52) }
}
#[inline(always)]
fn low_mask(k: u32) -> u64 { if k >= 64 { u64::MAX } else { (1u64 << k) - 1 } }
/// bit i of M = floor(m * 2^e)
#[inline(always)]
pub fn mag_bit(m: u64, e: i32, i: u32) -> bool {
    if e >= 0 {
        let e = e as u32;
        i >= e && i - e < 64 && (m >> (i - e)) & 1 == 1
    } else {
        let s = (-e) as u32;
        let mm = if s >= 64 { 0 } else { m >> s };
        i < 64 && (mm >> i) & 1 == 1
    }
}
/// is any bit of M = floor(m * 2^e) below position i set?
#[inline(always)]
pub fn mag_any_below(m: u64, e: i32, i: u32) -> bool {
    if e >= 0 {
        let e = e as u32;
        i > e && m & low_mask(i - e) != 0
    } else {
        let s = (-e) as u32;
        let mm = if s >= 64 { 0 } else { m >> s };
        mm & low_mask(i) != 0
    }
}
/// bit length of M = floor(m * 2^e) (0 for M = 0)
#[inline(always)]
pub fn mag_bits(m: u64, e: i32) -> i32 {
    let l = 64 - m.leading_zeros() as i32 + e;
    if m == 0 || l < 0 { 0 } else { l }
}
/// Rust `as` from a float to a w-bit integer, as a bit-indexed specification
#[inline(always)]
pub fn float_as_int_bit(dec: (bool, FClass, u64, i32), w: u32, signed: bool, i: u32) -> bool {
    let (neg, class, m, e) = dec;
    let top = i == w - 1;
    match class {
        FClass::Nan => false,
        FClass::Inf => if signed { if neg { top } else { !top } } else { !neg },
        FClass::Finite => {
            let l = mag_bits(m, e);
            if !signed {
                if neg { false } else if l > w as i32 { true } else { mag_bit(m, e, i) }
            } else if !neg {
                if l > w as i32 - 1 { !top } else { mag_bit(m, e, i) }
            } else if l > w as i32 - 1 {
                top // magnitude >= 2^(w-1): saturates to MIN (exactly 2^(w-1) is MIN as well)
            } else {
                // -M = !M + 1: bit i of M is kept while everything below is zero, inverted above the lowest set bit
                mag_bit(m, e, i) != mag_any_below(m, e, i)
            }
        }
    }
}

/// is the digit array the signed minimum (only the top bit set) / minus one (all ones)?
#[inline(always)]
pub fn is_min_s<D: Dig, const N: usize>(a: &[D; N]) -> bool {
    let mut ok = a[N - 1].to_u64() == 1u64 << (D::BITS - 1);
    let mut k = 0;
    while k + 1 < N { ok &= a[k] == D::ZERO; k += 1; }
    ok
}
#[inline(always)]
pub fn is_all_ones<D: Dig, const N: usize>(a: &[D; N]) -> bool {
    let mut ok = true;
    let mut k = 0;
    while k < N { ok &= a[k] == D::MAXD; k += 1; }
    ok
}
