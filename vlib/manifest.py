"""Render MANIFEST.json from the registry + per-property texts (python3 -m vlib.manifest)."""
import json, os
from . import spec

ROOT = os.path.dirname(os.path.dirname(os.path.abspath(__file__)))

TITLES = {}
for l in open(os.path.join(ROOT, 'properties.jsonl')):
    p = json.loads(l)
    TITLES[p['id']] = p['title']


def build():
    checks = []
    for p in sorted(spec.CLAIMS):
        c = spec.CLAIMS[p]
        checks.append({
            'property_id': p,
            'quick_cmd': f'./check {p} --tier quick',
            'thorough_cmd': f'./check {p} --tier thorough',
            'evidence_file': f'/verif/evidence/{p}.json',
            'replay_cmd_template': f'./check {p} --replay {{path}}',
            'engine': 'kani-cbmc',
            'level_claimed': {'category': 'model_checking', 'text': c['text'], 'design_ref': c.get('ref', f'DESIGN.md section 5 ({p})')},
            'level_note': c['note'],
            'technique': c['technique'],
        })
    na = [{'property_id': p, 'reason': r} for p, r in sorted(spec.NOT_APPLICABLE.items()) if p not in spec.CLAIMS]
    m = {
        'version': 1,
        'setup_cmd': 'python3 -m vlib.gen && python3 -m vlib.manifest --verify',
        'hooks': {
            'guard': 'verif_hooks',
            'enable': 'cargo feature `verif_hooks` of bnum, enabled by the harness crate (/verif/harness/Cargo.toml: bnum = { path = "/repo", features = [..., "verif_hooks"] }); '
                      'it only adds `pub mod verif_hooks` (thin public wrappers around the private digit kernels, used by the c02_kernel_hook_* harnesses); every other harness uses the public API',
            'baseline_off_cmd': 'cd /repo && cargo test --workspace --no-fail-fast --offline',
            'source_commits': spec.HOOK_COMMITS,
            'add_only': True,
        },
        'engines': [{'name': 'kani-cbmc', 'path': '/verif/check', 'serves_properties': sorted(spec.CLAIMS),
                     'kind_free_text': 'bounded model checking of the compiled bnum code: Kani 0.68 -> CBMC 6.11 -> CaDiCaL; harness crate /verif/harness '
                                       '(path dependency on /repo, rebuilt from the working tree on every run); counterexamples replayed natively'}],
        'checks': checks,
        'not_applicable': na,
        'notes': 'One harness = one (API group, digit type x N instantiation, build mode, bound). Verdicts are SAT-solver verdicts over all symbolic '
                 'inputs inside the stated bounds; nothing is claimed outside them (see evidence coverage.bounds / outside_bounds and DESIGN.md).',
    }
    return m


if __name__ == '__main__':
    import sys
    m = build()
    path = os.path.join(ROOT, 'MANIFEST.json')
    txt = json.dumps(m, indent=1) + '\n'
    if '--verify' in sys.argv:
        ok = os.path.exists(path) and open(path).read() == txt
        print('MANIFEST.json up to date' if ok else 'MANIFEST.json differs from registry (regenerate with python3 -m vlib.manifest)')
        sys.exit(0)
    open(path, 'w').write(txt)
    print('wrote', path, len(m['checks']), 'checks')
