//! Kani proof harnesses over the real bnum crate (path dependency on /repo).
//! One module per property; instantiations are generated into src/gen/ from /verif/vlib/spec.py.
#![allow(unused, clippy::all)]

pub mod nd;
pub mod util;

#[cfg(feature = "c01")]
pub mod c01;
#[cfg(feature = "c01")]
mod gen_c01 {
    include!("gen/c01.rs");
}
#[cfg(feature = "c02")]
pub mod c02;
#[cfg(feature = "c02")]
mod gen_c02 {
    include!("gen/c02.rs");
}
#[cfg(feature = "c03")]
pub mod c03;
#[cfg(feature = "c03")]
mod gen_c03 {
    include!("gen/c03.rs");
}
#[cfg(feature = "c04")]
pub mod c04;
#[cfg(feature = "c04")]
mod gen_c04 {
    include!("gen/c04.rs");
}
#[cfg(feature = "c05")]
pub mod c05;
#[cfg(feature = "c05")]
mod gen_c05 {
    include!("gen/c05.rs");
}
#[cfg(feature = "c06")]
pub mod c06;
#[cfg(feature = "c06")]
mod gen_c06 {
    include!("gen/c06.rs");
}
#[cfg(feature = "c07")]
pub mod c07;
#[cfg(feature = "c07")]
mod gen_c07 {
    include!("gen/c07.rs");
}
#[cfg(feature = "c08")]
pub mod c08;
#[cfg(feature = "c08")]
mod gen_c08 {
    include!("gen/c08.rs");
}
#[cfg(feature = "c09")]
pub mod c09;
#[cfg(feature = "c09")]
mod gen_c09 {
    include!("gen/c09.rs");
}
#[cfg(feature = "c10")]
pub mod c10;
#[cfg(feature = "c10")]
mod gen_c10 {
    include!("gen/c10.rs");
}
#[cfg(feature = "c11")]
pub mod c11;
#[cfg(feature = "c11")]
mod gen_c11 {
    include!("gen/c11.rs");
}
#[cfg(feature = "c12")]
pub mod c12;
#[cfg(feature = "c12")]
mod gen_c12 {
    include!("gen/c12.rs");
}
#[cfg(feature = "c13")]
pub mod c13;
#[cfg(feature = "c13")]
mod gen_c13 {
    include!("gen/c13.rs");
}
#[cfg(feature = "c14")]
pub mod c14;
#[cfg(feature = "c14")]
mod gen_c14 {
    include!("gen/c14.rs");
}
#[cfg(feature = "c15")]
pub mod c15;
#[cfg(feature = "c15")]
mod gen_c15 {
    include!("gen/c15.rs");
}
#[cfg(feature = "c16")]
pub mod c16;
#[cfg(feature = "c16")]
mod gen_c16 {
    include!("gen/c16.rs");
}
#[cfg(feature = "c17")]
pub mod c17;
#[cfg(feature = "c17")]
mod gen_c17 {
    include!("gen/c17.rs");
}
#[cfg(feature = "c18")]
pub mod c18;
#[cfg(feature = "c18")]
mod gen_c18 {
    include!("gen/c18.rs");
}
#[cfg(feature = "c19")]
pub mod c19;
#[cfg(feature = "c19")]
mod gen_c19 {
    include!("gen/c19.rs");
}
#[cfg(feature = "c20")]
pub mod c20;
#[cfg(feature = "c20")]
mod gen_c20 {
    include!("gen/c20.rs");
}
