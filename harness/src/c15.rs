//! C15 - byte-slice decoding and endianness helpers denote the right value.
//! Oracle: byte-indexed specification.  The slice is a fixed buffer of L = 2*BYTES+2 bytes with a symbolic
//! length 0..=L; value byte k of the slice is slice[len-1-k] (big endian) or slice[k] (little endian).

#[macro_export]
macro_rules! c15_slice {
    ($name:ident, $unw:expr, $T:ty, $D:ty, $N:expr, $L:expr, be) => {
        $crate::c15_slice!(@body $name, $unw, $T, $D, $N, $L, from_be_slice, |len: usize, k: usize| len - 1 - k, { let len: usize = $crate::nd::nd(); $crate::nd::assume(len <= $L); len }, true);
    };
    ($name:ident, $unw:expr, $T:ty, $D:ty, $N:expr, $L:expr, le) => {
        $crate::c15_slice!(@body $name, $unw, $T, $D, $N, $L, from_le_slice, |_len: usize, k: usize| k, { let len: usize = $crate::nd::nd(); $crate::nd::assume(len <= $L); len }, true);
    };
    // concrete slice length (every byte symbolic): loop trip counts are constants, which brings widths above 128 bits within reach
    ($name:ident, $unw:expr, $T:ty, $D:ty, $N:expr, $L:expr, be, $LEN:expr) => {
        $crate::c15_slice!(@body $name, $unw, $T, $D, $N, $L, from_be_slice, |len: usize, k: usize| len - 1 - k, { let _unused: usize = $crate::nd::nd(); $LEN }, false);
    };
    ($name:ident, $unw:expr, $T:ty, $D:ty, $N:expr, $L:expr, le, $LEN:expr) => {
        $crate::c15_slice!(@body $name, $unw, $T, $D, $N, $L, from_le_slice, |_len: usize, k: usize| k, { let _unused: usize = $crate::nd::nd(); $LEN }, false);
    };
    (@body $name:ident, $unw:expr, $T:ty, $D:ty, $N:expr, $L:expr, $f:ident, $pos:expr, $lenx:expr, $sym:expr) => {
        $crate::harness!($name, $unw, {
            use $crate::util::*;
            const BYTES: usize = (<$D>::BITS as usize / 8) * $N;
            const S: bool = <$T as BN<$D, $N>>::SIGNED;
            let buf: [u8; $L] = $crate::nd::nd();
            let len: usize = $lenx;
            let pos = $pos;
            // value byte k of the denoted number (k = 0 least significant)
            let vb = |k: usize| buf[pos(len, k)];
            let neg = S && len > 0 && vb(len - 1) & 0x80 != 0;
            let pad: u8 = if neg { 0xff } else { 0 };
            // representable: every excess byte is padding, and (signed, longer slice) the kept top byte carries the same sign
            let mut fits = true;
            let mut k = BYTES;
            while k < len { fits &= vb(k) == pad; k += 1; }
            if S && len > BYTES { fits &= (vb(BYTES - 1) & 0x80 != 0) == neg; }
            let r = <$T>::$f(&buf[..len]);
            assert!(r.is_some() == fits, "Some exactly when the denoted value is representable");
            if let Some(v) = r {
                let q: usize = $crate::nd::nd();
                $crate::nd::assume(q < BYTES);
                let e = if q < len { vb(q) } else { pad };
                assert!(dbyte(&v.dg(), q) == e, "byte q of the value (shorter slices are zero-/sign-extended)");
            }
            if $sym {
                $crate::reach!(len == 0, "empty slice");
                $crate::reach!(len > BYTES + 1 && fits && neg == S, "longer slice accepted");
                $crate::reach!(len > BYTES && !fits, "longer slice rejected");
                $crate::reach!(BYTES == 1 || (len > 0 && len < BYTES && neg == S && (<$D>::BITS == 8 || len % (<$D>::BITS as usize / 8) != 0)), "shorter slice, partial digit");
            } else {
                $crate::reach!(r.is_some() && neg == S, "accepted (negative for signed types)");
                $crate::reach!(len <= BYTES || !fits, "longer slice rejected");
            }
        });
    };
}

/// to_be / from_be / to_le / from_le on a little-endian target
#[macro_export]
macro_rules! c15_endian {
    ($name:ident, $unw:expr, $T:ty, $D:ty, $N:expr) => {
        $crate::harness!($name, $unw, {
            use $crate::util::*;
            const BYTES: usize = (<$D>::BITS as usize / 8) * $N;
            let (a, ad) = <$T as BN<$D, $N>>::any();
            let k: usize = $crate::nd::nd();
            $crate::nd::assume(k < BYTES);
            if cfg!(target_endian = "little") {
                assert!(dbyte(&a.to_be().dg(), k) == dbyte(&ad, BYTES - 1 - k) && dbyte(&<$T>::from_be(a).dg(), k) == dbyte(&ad, BYTES - 1 - k), "to_be / from_be reverse the bytes");
                assert!(deq(&a.to_le().dg(), &ad) && deq(&<$T>::from_le(a).dg(), &ad), "to_le / from_le are the identity");
            } else {
                assert!(dbyte(&a.to_le().dg(), k) == dbyte(&ad, BYTES - 1 - k) && dbyte(&<$T>::from_le(a).dg(), k) == dbyte(&ad, BYTES - 1 - k));
                assert!(deq(&a.to_be().dg(), &ad) && deq(&<$T>::from_be(a).dg(), &ad));
            }
            assert!(deq(&<$T>::from_be(a.to_be()).dg(), &ad) && deq(&<$T>::from_le(a.to_le()).dg(), &ad), "round trip");
        });
    };
}
