//! C08 - powers and integer logarithms are exact.
//! Oracle: an independent LSB-first square-and-multiply in "exact with cap" arithmetic: every intermediate is
//! either an exact value below 2^W or the token Big (>= 2^W); the residue mod 2^W is tracked separately.
//! Widths <= 16 bits, so all products fit u32.

/// exact-with-cap value: Some(v) with v < 2^W, or None = "at least 2^W"
#[inline(always)]
pub fn cap_mul(x: Option<u32>, y: Option<u32>, w: u32) -> Option<u32> {
    match (x, y) {
        (Some(0), _) | (_, Some(0)) => Some(0),
        (Some(a), Some(b)) => { let p = a * b; if p >> w != 0 { None } else { Some(p) } }
        _ => None,
    }
}

/// (|a|^e exact-with-cap, a_pattern^e mod 2^W) for e < 2^EB
#[inline(always)]
pub fn pow_oracle(mag: u32, pat: u32, e: u32, w: u32, eb: u32) -> (Option<u32>, u32) {
    let mask = (1u32 << w) - 1;
    let (mut r, mut b) = (Some(1u32), Some(mag));
    let (mut rw, mut bw) = (1u32, pat & mask);
    let mut k = 0;
    while k < eb {
        if (e >> k) & 1 == 1 { r = cap_mul(r, b, w); rw = (rw * bw) & mask; }
        b = cap_mul(b, b, w);
        bw = (bw * bw) & mask;
        k += 1;
    }
    (r, rw)
}

#[macro_export]
macro_rules! c08_pow_u {
    ($name:ident, $unw:expr, $U:ty, $D:ty, $N:expr, $EB:expr) => {
        $crate::harness!($name, $unw, {
            use $crate::util::*;
            const W: u32 = <$D>::BITS * $N;
            let (a, ad) = <$U as BN<$D, $N>>::any();
            let e: u32 = $crate::nd::nd();
            if $EB < 32 { $crate::nd::assume(e >> $EB == 0); }
            let av = dval_u128(&ad) as u32;
            let (exact, wrapped) = $crate::c08::pow_oracle(av, av, e, W, $EB);
            let val = |x: $U| dval_u128(&x.dg()) as u32;
            let (v, f) = a.overflowing_pow(e);
            assert!(val(v) == wrapped, "a^e reduced mod 2^BITS");
            assert!(f == exact.is_none(), "flag exactly when a^e is not representable");
            match a.checked_pow(e) { Some(c) => assert!(exact == Some(val(c))), None => assert!(exact.is_none()) }
            assert!(val(a.wrapping_pow(e)) == wrapped, "wrapping_pow");
            assert!(val(a.saturating_pow(e)) == match exact { Some(x) => x, None => (1u32 << W) - 1 }, "saturating_pow clamps to MAX");
            if let Some(x) = exact { assert!(val(a.strict_pow(e)) == x, "strict_pow"); }
            $crate::reach!(e == 0 && av == 0, "0^0 == 1");
            $crate::reach!(exact.is_none() && wrapped != 0 && e > 5, "overflow with non-zero residue");
            $crate::reach!(exact.is_some() && e > 3 && av > 1, "representable power");
            $crate::reach!($EB < 32 || (e > 0x8000_0000 && av == 4), "huge exponent");
        });
    };
}

#[macro_export]
macro_rules! c08_pow_i {
    ($name:ident, $unw:expr, $I:ty, $D:ty, $N:expr, $EB:expr) => {
        $crate::harness!($name, $unw, {
            use $crate::util::*;
            const W: u32 = <$D>::BITS * $N;
            let (a, ad) = <$I as BN<$D, $N>>::any();
            let e: u32 = $crate::nd::nd();
            if $EB < 32 { $crate::nd::assume(e >> $EB == 0); }
            let sv = dval_i128(&ad) as i32;
            let mag = (if sv < 0 { -sv } else { sv }) as u32;
            let pat = dval_u128(&ad) as u32;
            let (emag, wrapped) = $crate::c08::pow_oracle(mag, pat, e, W, $EB);
            let rneg = sv < 0 && e & 1 == 1;
            // representable: |a|^e < 2^(W-1), or == 2^(W-1) for a negative result
            let fits = match emag { Some(m) => m < (1u32 << (W - 1)) || (rneg && m == (1u32 << (W - 1))), None => false };
            let pv = |x: $I| dval_u128(&x.dg()) as u32;
            let (v, f) = a.overflowing_pow(e);
            assert!(pv(v) == wrapped, "a^e reduced into the type's range");
            assert!(f == !fits, "flag exactly when a^e is not representable");
            match a.checked_pow(e) { Some(c) => assert!(fits && pv(c) == wrapped), None => assert!(!fits) }
            assert!(pv(a.wrapping_pow(e)) == wrapped, "wrapping_pow");
            let sat = if fits { wrapped } else if rneg { 1u32 << (W - 1) } else { (1u32 << (W - 1)) - 1 };
            assert!(pv(a.saturating_pow(e)) == sat, "saturating_pow: MIN for a negative base and odd exponent, MAX otherwise");
            if fits { assert!(pv(a.strict_pow(e)) == wrapped, "strict_pow"); }
            $crate::reach!(fits && rneg && emag == Some(1u32 << (W - 1)), "power lands exactly on MIN");
            $crate::reach!(!fits && rneg, "negative overflow");
            $crate::reach!(!fits && !rneg && sv < 0, "negative base, even exponent, overflow");
        });
    };
}

/// strict_pow panics on every overflowing (base, exponent) - both signs
#[macro_export]
macro_rules! c08_strict_pow_panic {
    ($name:ident, $unw:expr, $U:ty, $I:ty, $D:ty, $N:expr) => {
        $crate::panic_harness!($name, $unw, {
            use $crate::util::*;
            let (a, _) = <$U as BN<$D, $N>>::any();
            let sa = <$I>::from_bits(a);
            let e: u32 = $crate::nd::nd();
            let signed: bool = $crate::nd::nd();
            let f = if signed { sa.overflowing_pow(e).1 } else { a.overflowing_pow(e).1 };
            $crate::nd::assume(f);
            $crate::reach!(signed, "signed"); $crate::reach!(!signed, "unsigned");
            if signed { let _ = sa.strict_pow(e); } else { let _ = a.strict_pow(e); }
            $crate::noreturn!("strict_pow returned on overflow");
        });
    };
}

/// ilog / ilog2 / ilog10: greatest k with b^k <= self; checked forms None exactly when self <= 0 or base < 2
#[macro_export]
macro_rules! c08_ilog {
    ($name:ident, $unw:expr, $T:ty, $D:ty, $N:expr) => {
        $crate::harness!($name, $unw, {
            use $crate::util::*;
            const W: u32 = <$D>::BITS * $N;
            const S: bool = <$T as BN<$D, $N>>::SIGNED;
            let (x, xd) = <$T as BN<$D, $N>>::any();
            let (b, bd) = <$T as BN<$D, $N>>::any();
            let (xv, bv) = if S { (dval_i128(&xd) as i32, dval_i128(&bd) as i32) } else { (dval_u128(&xd) as i32, dval_u128(&bd) as i32) };
            // b^k <= x < b^(k+1), powers computed with a cap above any representable value
            let defines = |base: i32, k: u32| -> bool {
                let cap: i64 = 1i64 << 20;
                let mut p: i64 = 1;
                let mut i = 0;
                while i < W { if i < k { p = if p * base as i64 > cap { cap } else { p * base as i64 }; } i += 1; }
                let next = if p * base as i64 > cap { cap } else { p * base as i64 };
                p <= xv as i64 && (xv as i64) < next
            };
            match x.checked_ilog(b) {
                Some(k) => { assert!(xv > 0 && bv >= 2, "Some only for positive self and base >= 2"); assert!(k < W && defines(bv, k), "greatest k with b^k <= self"); if xv > 0 && bv >= 2 { assert!(x.ilog(b) == k); } }
                None => assert!(xv <= 0 || bv < 2, "None only when self <= 0 or base < 2"),
            }
            match x.checked_ilog2() {
                Some(k) => { assert!(xv > 0 && k < W && defines(2, k)); assert!(x.ilog2() == k); }
                None => assert!(xv <= 0),
            }
            match x.checked_ilog10() {
                Some(k) => { assert!(xv > 0 && k < W && defines(10, k)); assert!(x.ilog10() == k); }
                None => assert!(xv <= 0),
            }
            $crate::reach!(xv > 100 && bv == 10, "base ten");
            $crate::reach!(xv > 0 && bv > 2 && xv >= bv * bv && xv < 127, "k >= 2");
            $crate::reach!(xv > 0 && bv >= 2 && bv > xv, "base above self: 0");
        });
    };
}

/// any width: ilog2 is the position of the highest set bit
#[macro_export]
macro_rules! c08_ilog2_lin {
    ($name:ident, $unw:expr, $T:ty, $D:ty, $N:expr) => {
        $crate::harness!($name, $unw, {
            use $crate::util::*;
            const W: u32 = <$D>::BITS * $N;
            const S: bool = <$T as BN<$D, $N>>::SIGNED;
            let (x, xd) = <$T as BN<$D, $N>>::any();
            let j: u32 = $crate::nd::nd();
            $crate::nd::assume(j < W);
            let positive = !dzero(&xd) && !(S && dneg(&xd));
            match x.checked_ilog2() {
                Some(k) => { assert!(positive && k < W && dbit(&xd, k) && (j <= k || !dbit(&xd, j)), "2^k <= self < 2^(k+1)"); assert!(x.ilog2() == k); }
                None => assert!(!positive, "None exactly when self <= 0"),
            }
            $crate::reach!(positive, "positive");
        });
    };
}

/// pow with a CONCRETE power-of-two base (+-2^k) and the exponent over ALL of u32 on wide types: the squarings are evaluated by constant
/// propagation and the conditional multiplications are products by powers of two, so the exponent loop, the sticky overflow flag, the parity-based
/// re-signing and the landing exactly on MIN are decided at 40..320 bits.  Exact result: (+-2^k)^e = (+-1)^e * 2^(k*e).
#[macro_export]
macro_rules! c08_pow_pow2 {
    ($name:ident, $unw:expr, $U:ty, $I:ty, $D:ty, $N:expr, $K:expr) => {
        $crate::harness!($name, $unw, {
            use $crate::util::*;
            const W: u64 = (<$D>::BITS as u64) * $N;
            let e: u32 = $crate::nd::nd();
            let sh: u64 = ($K as u64) * (e as u64); // exact: k * e < 2^38
            let j: u32 = $crate::nd::nd();
            $crate::nd::assume((j as u64) < W);
            // unsigned base 2^k
            let ub = <$U>::power_of_two($K);
            let (v, f) = ub.overflowing_pow(e);
            let fits_u = sh < W;
            assert!(f == !fits_u, "unsigned overflow flag: 2^(k*e) is representable iff k*e < BITS");
            if fits_u { assert!(dbit(&v.dg(), j) == (j as u64 == sh), "the power is the single bit k*e"); }
            else { assert!(!dbit(&v.dg(), j), "the wrapped power of two is zero"); }
            match ub.checked_pow(e) { Some(x) => assert!(fits_u && deq(&x.dg(), &v.dg()), "checked_pow Some"), None => assert!(!fits_u, "checked_pow None") }
            assert!(deq(&ub.wrapping_pow(e).dg(), &v.dg()), "wrapping_pow");
            assert!(dbit(&ub.saturating_pow(e).dg(), j) == if fits_u { j as u64 == sh } else { true }, "saturating_pow (MAX on overflow)");
            // signed bases 2^k and -2^k
            let pb = <$I>::from_bits(ub);
            let nb = pb.wrapping_neg();
            let odd = e & 1 == 1;
            let fits_p = sh < W - 1;
            let fits_n = sh < W - 1 || (sh == W - 1 && odd); // (-2^k)^e = -2^(BITS-1) = MIN
            let (pv, pf) = pb.overflowing_pow(e);
            assert!(pf == !fits_p, "signed flag, positive base");
            if fits_p { assert!(dbit(&pv.dg(), j) == (j as u64 == sh), "positive power"); }
            let (nv, nf) = nb.overflowing_pow(e);
            assert!(nf == !fits_n, "signed flag, negative base (MIN is representable)");
            if fits_n {
                // value: 2^sh for even e, -2^sh for odd e (bits sh.. set)
                let want = if odd { j as u64 >= sh } else { j as u64 == sh };
                assert!(dbit(&nv.dg(), j) == want, "negative base: sign follows the parity of the exponent");
            }
            match nb.checked_pow(e) { Some(x) => assert!(fits_n && deq(&x.dg(), &nv.dg()), "signed checked_pow Some"), None => assert!(!fits_n, "signed checked_pow None") }
            // saturating: MAX for a positive overflow, MIN for a negative base with an odd exponent
            let sat = nb.saturating_pow(e).dg();
            let want_sat = if fits_n { if odd { j as u64 >= sh } else { j as u64 == sh } } else if odd { j as u64 == W - 1 } else { (j as u64) < W - 1 };
            assert!(dbit(&sat, j) == want_sat, "signed saturating_pow");
            $crate::reach!(sh == W - 1 && odd, "(-2^k)^e == MIN");
            $crate::reach!(fits_u && e > 1, "representable power");
            $crate::reach!(e > 1000, "large exponent");
        });
    };
}

/// ilog with a CONCRETE power-of-two base 2^k on wide values whose most significant digit is concrete (the bit length is then a constant):
/// the recursive squaring scheme (iilog) squares a constant base and divides the symbolic value by constants.  Exact result: floor((bits - 1) / k).
#[macro_export]
macro_rules! c08_ilog_pow2 {
    ($name:ident, $unw:expr, $U:ty, $I:ty, $D:ty, $N:expr, $K:expr, $top:expr) => {
        $crate::harness!($name, $unw, {
            use $crate::util::*;
            const DB: u32 = <$D>::BITS;
            let mut xd: [$D; $N] = $crate::nd::nd();
            let top: $D = $top;
            xd[$N - 1] = top;
            let x = <$U as BN<$D, $N>>::mk(xd);
            let bits: u32 = ($N as u32 - 1) * DB + (DB - top.leading_zeros());
            let want: u32 = (bits - 1) / $K;
            let base = <$U>::power_of_two($K);
            assert!(x.checked_ilog(base) == Some(want), "ilog(2^k) == floor((bits - 1) / k)");
            assert!(x.ilog(base) == want, "ilog");
            // signed: same for positive values (top bit clear), None for negative ones
            let s = <$I>::from_bits(x);
            let sb = <$I>::from_bits(base);
            if dneg(&xd) { assert!(s.checked_ilog(sb).is_none(), "ilog of a negative value is None"); }
            else { assert!(s.checked_ilog(sb) == Some(want), "signed ilog"); }
            $crate::reach!(want > 1, "multi-step recursion");
        });
    };
}
