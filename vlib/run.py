"""Driver: schedule Kani jobs for one property, parse CBMC verdicts, replay counterexamples natively,
apply known findings, write evidence, set the exit status.

exit 0  every decided harness held (KNOWN-FINDING lines allowed) and all core harnesses were decided
exit 1  a natively reproduced counterexample not listed in known_findings.json -> VIOLATION line
exit 2  machinery failure (core harness undecided, build error, counterexample that does not replay)
"""
import argparse, hashlib, json, os, queue, random, re, resource, shutil, signal, subprocess, sys, threading, time

from . import spec, gen

ROOT = os.path.dirname(os.path.dirname(os.path.abspath(__file__)))
WORK = os.environ.get('VERIF_WORK') or os.path.join(ROOT, '.work')
# seeded-change evaluation only: a copy of the harness crate whose path dependency points at a patched scratch worktree
HARNESS_OVERRIDE = os.environ.get('VERIF_HARNESS_DIR')
KANI_ENV = {'CARGO_NET_OFFLINE': 'true', 'CARGO_TERM_COLOR': 'never'}
NATIVE_TOOLCHAIN = 'stable'


def log(*a):
    print(*a, flush=True)


def mode_env(mode):
    e = dict(os.environ)
    e.update(KANI_ENV)
    e.pop('RUSTUP_TOOLCHAIN', None)
    if mode == 'rel':
        e['CARGO_PROFILE_DEV_DEBUG_ASSERTIONS'] = 'false'
        e['CARGO_PROFILE_DEV_OVERFLOW_CHECKS'] = 'false'
    else:
        e['CARGO_PROFILE_DEV_DEBUG_ASSERTIONS'] = 'true'
        e['CARGO_PROFILE_DEV_OVERFLOW_CHECKS'] = 'true'
    return e


def limit(mem_gb):
    def f():
        os.setsid()
        b = max(2 * mem_gb, 16) * (1 << 30)  # address-space cap; mem_gb itself is the admission weight (expected resident size)
        resource.setrlimit(resource.RLIMIT_AS, (b, b))
    return f


def kani_cmd(h, target_dir, extra=()):
    crate_dir = (HARNESS_OVERRIDE if h.crate == 'harness' else None) or os.path.join(ROOT, h.crate)
    cmd = ['cargo', 'kani', '--features', h.prop.lower(), '--harness', f"gen_{h.prop.lower()}::{h.name}", '--exact',
           '--target-dir', target_dir, '--no-assertion-reach-checks']
    if h.stub:
        cmd += ['-Z', 'stubbing']
    cmd += list(extra)
    return cmd, crate_dir


CHECK_RE = re.compile(r'^Check (\d+): (.+)\n\t - Status: (\S+)\n\t - Description: "(.*)"\n(?:\t - Location: (.*)\n)?', re.M)


def parse_log(txt):
    r = {'checks': [], 'verdict': None, 'time': None}
    for m in CHECK_RE.finditer(txt):
        r['checks'].append({'id': m.group(2), 'status': m.group(3), 'desc': m.group(4), 'loc': m.group(5) or ''})
    m = re.search(r'^VERIFICATION:- (\w+)(.*)$', txt, re.M)
    if m:
        r['verdict'] = m.group(1)
        r['verdict_note'] = m.group(2).strip()
    m = re.search(r'^Verification Time: ([0-9.]+)s', txt, re.M)
    if m:
        r['time'] = float(m.group(1))
    r['solver_s'] = sum(float(x) for x in re.findall(r'^Runtime Solver: ([0-9.e+-]+)s', txt, re.M))
    r['symex_s'] = sum(float(x) for x in re.findall(r'^Runtime Symex: ([0-9.e+-]+)s', txt, re.M))
    vc = [(int(a), int(b)) for a, b in re.findall(r'^(\d+) variables, (\d+) clauses', txt, re.M)]
    r['sat_vars'] = max((a for a, _ in vc), default=0)
    r['sat_clauses'] = max((b for _, b in vc), default=0)
    r['sat_calls'] = len(vc)
    m = re.search(r'Generated (\d+) VCC\(s\), (\d+) remaining', txt)
    r['vccs'] = int(m.group(1)) if m else 0
    funcs = set(re.findall(r' function (\S.*?) thread \d+$', txt, re.M))
    funcs |= set(re.findall(r' in function (\S.*)$', txt, re.M))
    r['functions'] = sorted(f for f in funcs if f.startswith('bnum::') or '<impl' in f and 'bnum' in f)
    r['stubs'] = sorted(set(re.findall(r'^\s*-? ?Stub: (.*)$', txt, re.M)))
    r['oom'] = bool(re.search(r'Status: ERROR|std::bad_alloc|out of memory|Out of memory|memory exhausted|CBMC failed|run out of memory', txt))
    r['build_error'] = bool(re.search(r'^error(\[E\d+\])?:', txt, re.M)) and r['verdict'] is None
    return r


def classify(h, p):
    """-> (state, detail). state in held | failed | undecided | vacuous"""
    if p['verdict'] is None:
        return 'undecided', 'no verdict (timeout / out of memory / build error)'
    covers = [c for c in p['checks'] if c['id'].endswith(tuple(f'.cover.{i}' for i in range(1, 400))) or '.cover.' in c['id']]
    asserts = [c for c in p['checks'] if '.cover.' not in c['id']]
    failed = [c for c in asserts if c['status'] == 'FAILURE']
    undet = [c for c in asserts if c['status'] not in ('SUCCESS', 'FAILURE', 'UNREACHABLE')]
    unwind_fail = [c for c in failed if 'unwind' in c['id'] or 'unwinding assertion' in c['desc']]
    noret = [c for c in covers if c['desc'] == 'noreturn']
    reach = [c for c in covers if c['desc'] != 'noreturn']
    if unwind_fail:
        return 'undecided', 'unwinding assertion failed: ' + unwind_fail[0]['loc']
    if h.kind == 'panic':
        bad = [c for c in noret if c['status'] == 'SATISFIED']
        if bad:
            return 'failed', 'a must-panic input lets the call return'
        # every failing check must be a panic (assertion class) - Kani reports this through its verdict
        if p['verdict'] != 'SUCCESSFUL':
            nonpanic = [c for c in failed if '.assertion.' not in c['id']]
            if nonpanic:
                return 'failed', 'non-panic failure: ' + nonpanic[0]['desc']
            if not failed:
                return 'vacuous', 'must-panic harness without any reachable panic'
            return 'undecided', 'unexpected verdict ' + str(p['verdict'])
        if not noret:
            return 'vacuous', 'no noreturn cover'
        vac = [c for c in reach if c['status'] != 'SATISFIED']
        if vac:
            return 'vacuous', 'reachability witness not satisfied: ' + vac[0]['desc']
        return 'held', ''
    if failed:
        return 'failed', failed[0]['desc'] + ' @ ' + failed[0]['loc']
    if undet:
        return 'undecided', 'undetermined check ' + undet[0]['desc']
    if p['verdict'] != 'SUCCESSFUL':
        return ('failed', 'verdict FAILED (no individual failing check parsed)') if p['verdict'] == 'FAILED' else ('undecided', 'verdict ' + str(p['verdict']))
    vac = [c for c in reach if c['status'] != 'SATISFIED']
    if vac:
        return 'vacuous', 'reachability witness not satisfied: ' + vac[0]['desc'] + ' @ ' + vac[0]['loc']
    if not reach:
        return 'vacuous', 'no reachability witness'
    return 'held', ''


class Job:
    def __init__(self, h):
        self.h = h
        self.state = None
        self.detail = ''
        self.parsed = None
        self.wall = 0.0
        self.logpath = None
        self.replay = None


def run_proc(cmd, cwd, env, cap, mem_gb, logpath):
    t0 = time.time()
    with open(logpath, 'w') as lf:
        p = subprocess.Popen(cmd, cwd=cwd, env=env, stdout=lf, stderr=subprocess.STDOUT, preexec_fn=limit(mem_gb))
        try:
            p.wait(timeout=cap)
            to = False
        except subprocess.TimeoutExpired:
            to = True
            try:
                os.killpg(p.pid, signal.SIGKILL)
            except ProcessLookupError:
                pass
            p.wait()
    return p.returncode, to, time.time() - t0


def run_job(job, wdir, logdir, cap_scale=1.0):
    h = job.h
    cmd, cwd = kani_cmd(h, wdir)
    job.logpath = os.path.join(logdir, f"{h.name}.{h.mode}.log")
    cap = int(h.cap * cap_scale)
    rc, to, wall = run_proc(cmd, cwd, mode_env(h.mode), cap, h.mem_gb, job.logpath)
    job.wall = wall
    txt = open(job.logpath, errors='replace').read()
    p = parse_log(txt)
    job.parsed = p
    if to:
        job.state, job.detail = 'undecided', f'timeout after {cap}s'
    elif p['build_error']:
        job.state, job.detail = 'undecided', 'build error'
        m = re.search(r'^error.*(?:\n.*){0,6}', txt, re.M)
        job.detail += ': ' + (m.group(0)[:600] if m else '')
    elif p['oom'] and p['verdict'] != 'SUCCESSFUL':
        job.state, job.detail = 'undecided', 'out of memory / CBMC error'
    else:
        job.state, job.detail = classify(h, p)
    return job


# ------------------------------------------------------------------ counterexample extraction + native replay
def extract_playback(h, wdir, logdir):
    """re-run the failing harness with concrete playback and return the byte vectors"""
    cmd, cwd = kani_cmd(h, wdir, extra=['-Z', 'concrete-playback', '--concrete-playback=print'])
    lp = os.path.join(logdir, f"{h.name}.{h.mode}.playback.log")
    run_proc(cmd, cwd, mode_env(h.mode), int(h.cap * 2) + 120, h.mem_gb, lp)
    txt = open(lp, errors='replace').read()
    tests = []
    for m in re.finditer(r'fn (kani_concrete_playback_\w+)\(\)\s*\{(.*?)kani::concrete_playback_run', txt, re.S):
        vals = []
        for v in re.finditer(r'vec!\[([0-9,\s]*)\]', m.group(2)):
            body = v.group(1).strip()
            vals.append([int(x) for x in body.split(',') if x.strip()] if body else [])
        tests.append(vals)
    return tests


def native_replay(h, replay_path, profile, logdir):
    crate_dir = (HARNESS_OVERRIDE if h.crate == 'harness' else None) or os.path.join(ROOT, h.crate)
    env = dict(os.environ)
    env.update(KANI_ENV)
    env['RUSTUP_TOOLCHAIN'] = NATIVE_TOOLCHAIN if h.crate == 'harness' else 'nightly-2026-08-21'  # the nightly crate needs generic_const_exprs
    env['VERIF_REPLAY'] = replay_path
    env['RUSTFLAGS'] = env.get('RUSTFLAGS', '') + ' -Awarnings'
    cmd = ['cargo', 'test', '--offline', '--lib', '--features', h.prop.lower(), '--target-dir', os.path.join(WORK, 'native' if h.crate == 'harness' else 'native-nightly')]
    if profile == 'release':
        cmd.append('--release')
    cmd += ['--', '--exact', f"gen_{h.prop.lower()}::{h.name}", '--test-threads', '1', '--nocapture']
    lp = os.path.join(logdir, f"{h.name}.{h.mode}.native-{profile}.log")
    rc, to, wall = run_proc(cmd, crate_dir, env, 900, 32, lp)
    txt = open(lp, errors='replace').read()
    if 'REPLAY-ASSUMPTION-NOT-MET' in txt:
        return 'assumption-not-met', txt
    if 'REPLAY-RETURNED-WHERE-PANIC-REQUIRED' in txt:
        return 'reproduced', txt
    if re.search(r'test result: ok\. 1 passed', txt):
        return 'not-reproduced', txt
    if re.search(r'test result: FAILED', txt) or 'panicked at' in txt:
        if h.kind == 'panic':
            return 'not-reproduced', txt
        return 'reproduced', txt
    return 'error', txt


def native_validation(prop, logdir):
    """models used as Kani stubs are validated natively against the real functions before any Kani verdict is trusted"""
    filt = spec.NATIVE_VALIDATION.get(prop)
    if not filt:
        return True, []
    crate_dir = HARNESS_OVERRIDE or os.path.join(ROOT, 'harness')
    env = dict(os.environ)
    env.update(KANI_ENV)
    env['RUSTUP_TOOLCHAIN'] = NATIVE_TOOLCHAIN
    env['RUSTFLAGS'] = env.get('RUSTFLAGS', '') + ' -Awarnings'
    env.pop('VERIF_REPLAY', None)
    cmd = ['cargo', 'test', '--offline', '--lib', '--features', prop.lower(), '--target-dir', os.path.join(WORK, 'native'), filt, '--', '--nocapture', '--test-threads', '4']
    lp = os.path.join(logdir, 'native-validation.log')
    rc, to, wall = run_proc(cmd, crate_dir, env, 1800, 32, lp)
    txt = open(lp, errors='replace').read()
    lines = re.findall(r'^(C\d\d-MODEL-VALIDATION .*)$', txt, re.M)
    ok = rc == 0 and not to and bool(re.search(r'test result: ok\. [1-9]\d* passed', txt)) and bool(lines)
    return ok, lines


def load_known():
    p = os.path.join(ROOT, 'known_findings.json')
    if not os.path.exists(p):
        return []
    return json.load(open(p)).get('findings', [])


def match_known(h, known):
    for k in known:
        if k.get('status') != 'open':
            continue
        if k['property'] == h.prop and re.fullmatch(k['harness'], h.name):
            return k
    return None


def select(prop, tier, seed, only=None):
    """quick tier = every quick harness + VERIF_SEED-chosen members of the seeded thorough families (each still decided for
    all of its inputs by the solver; the seed only picks WHICH extra instantiations / radices are queried)"""
    allh = spec.by_prop(prop)
    hs = [h for h in allh if tier == 'thorough' or h.tier == 'quick']
    if tier == 'quick':
        fam = {}
        for h in allh:
            if h.seeded and h.tier == 'thorough':
                fam.setdefault(h.macro, []).append(h)
        rnd = random.Random(seed * 7919 + sum(ord(c) for c in prop))
        for macro in sorted(fam):
            g = sorted(fam[macro], key=lambda x: x.name)
            hs += rnd.sample(g, min(spec.SEEDED_EXTRA.get(prop, 2), len(g)))
    if only:
        hs = [h for h in hs if re.search(only, h.name)]
    return hs


def main(argv=None):
    ap = argparse.ArgumentParser()
    ap.add_argument('prop')
    ap.add_argument('--tier', default=os.environ.get('VERIF_TIER', 'quick'), choices=['quick', 'thorough'])
    ap.add_argument('--replay')
    ap.add_argument('--only')
    ap.add_argument('--jobs', type=int, default=int(os.environ.get('VERIF_JOBS', '8')))
    ap.add_argument('--keep', action='store_true', default=os.environ.get('VERIF_KEEP') == '1')
    ap.add_argument('--no-evidence', action='store_true')
    ap.add_argument('--cap-scale', type=float, default=float(os.environ.get('VERIF_CAP_SCALE', '1')))
    a = ap.parse_args(argv)
    prop = a.prop.upper()
    seed = int(os.environ.get('VERIF_SEED', '0') or 0)
    t0 = time.time()
    if not HARNESS_OVERRIDE:
        for c in sorted({h.crate for h in spec.REG}):
            gen.render(c)
        gen.render_lib('harness')
    os.makedirs(WORK, exist_ok=True)
    logdir = os.path.join(WORK, 'logs', prop)
    os.makedirs(logdir, exist_ok=True)

    if a.replay:
        return replay_only(prop, a.replay, logdir)

    nv_ok, nv_lines = native_validation(prop, logdir)
    for l in nv_lines:
        log(l)
    if not nv_ok:
        log(f"MACHINERY-FAILURE native validation of the stub models of {prop} failed (see {logdir}/native-validation.log)")
        return 2
    hs = select(prop, a.tier, seed, a.only)
    if not hs:
        log(f"no harnesses registered for {prop}")
        return 2
    known = load_known()
    jobs = [Job(h) for h in hs]
    # longest first
    order = sorted(jobs, key=lambda j: -j.h.cap)
    q = queue.Queue()
    for j in order:
        q.put(j)
    nworkers = max(1, min(a.jobs, len(jobs)))
    lock = threading.Lock()
    done = []

    # memory-aware admission: the address-space limits of the running jobs never add up to more than MEM_POOL GB
    MEM_POOL = int(os.environ.get('VERIF_MEM_GB', '52'))
    mem = {'free': MEM_POOL}
    cv = threading.Condition()

    def worker(k):
        while True:
            try:
                j = q.get_nowait()
            except queue.Empty:
                return
            need = min(j.h.mem_gb, MEM_POOL)
            with cv:
                while mem['free'] < need:
                    cv.wait()
                mem['free'] -= need
            wdir = os.path.join(WORK, f"kani-{prop}-{j.h.mode}-w{k}" + ('' if j.h.crate == 'harness' else '-n'))
            try:
                run_job(j, wdir, logdir, a.cap_scale)
            finally:
                with cv:
                    mem['free'] += need
                    cv.notify_all()
            if j.state == 'failed':
                handle_failure(j, wdir, logdir, known)
            with lock:
                done.append(j)
                log(f"[{len(done)}/{len(jobs)}] {j.h.name} ({j.h.mode}) {j.state.upper()} {j.wall:.0f}s {j.detail[:200]}")

    ths = [threading.Thread(target=worker, args=(k,)) for k in range(nworkers)]
    for t in ths:
        t.start()
    for t in ths:
        t.join()

    # ---------------------------------------------------------------- verdict
    violations, findings, machinery = [], [], []
    for j in jobs:
        h = j.h
        if h.kind == 'kf':
            # twin restricted to a known-failing region: failing + reproduced => KNOWN-FINDING; holding => defect gone
            k = match_known(h, known)
            if j.state == 'failed' and j.replay and j.replay['native'] == 'reproduced':
                if k:
                    findings.append((j, k))
                else:
                    violations.append(j)
            elif j.state == 'failed':
                machinery.append((j, 'counterexample did not replay natively'))
            continue
        if j.state == 'failed':
            if j.replay and j.replay['native'] == 'reproduced':
                k = match_known(h, known)
                if k:
                    findings.append((j, k))
                else:
                    violations.append(j)
            else:
                machinery.append((j, 'counterexample did not replay natively: ' + (j.replay or {}).get('native', 'no playback')))
        elif j.state in ('undecided', 'vacuous'):
            log(f"UNDECIDED harness={h.name} mode={h.mode} reason={j.state}: {j.detail[:300]}")
            # only the calibrated quick-tier set can fail the run: a thorough-only harness that does not finish (or whose
            # witness is not met) is reported and left out of `discharged`, never counted as held
            if h.tier == 'quick' and not h.seeded and (h.core or j.state == 'vacuous'):
                machinery.append((j, j.detail))

    seen = {}
    for j, k in findings:
        seen.setdefault(k['id'], (k, []))[1].append(j)
    for kid, (k, js) in seen.items():
        log(f"KNOWN-FINDING: property={prop} {k['what']} [{kid}; reproduced natively by {len(js)} harness(es), e.g. {js[0].h.name}, replay {js[0].replay['path']}]")
    for j in violations:
        log(f"VIOLATION property={prop} replay={j.replay['path']}")
        log(f"  harness={j.h.name} mode={j.h.mode} inst={j.h.inst} :: {j.detail[:300]}")
    for j, why in machinery:
        log(f"MACHINERY-FAILURE harness={j.h.name} mode={j.h.mode}: {why[:400]}")

    wall = time.time() - t0
    if not a.no_evidence and not a.only:
        write_evidence(prop, a.tier, seed, jobs, violations, findings, wall, nv_lines)
    if not a.keep:
        for d in os.listdir(WORK):
            if d.startswith(f"kani-{prop}-") or d in ('native', 'native-nightly'):
                shutil.rmtree(os.path.join(WORK, d), ignore_errors=True)
    held = sum(1 for j in jobs if j.state == 'held')
    log(f"{prop} tier={a.tier}: {held}/{len(jobs)} harnesses held, {len(violations)} violations, "
        f"{len(findings)} known findings, {len(machinery)} machinery failures, {wall:.0f}s")
    if violations:
        return 1
    if machinery:
        return 2
    return 0


def handle_failure(j, wdir, logdir, known):
    h = j.h
    tests = extract_playback(h, wdir, logdir)
    rdir = os.path.join(ROOT, 'replay', h.prop)
    os.makedirs(rdir, exist_ok=True)
    j.replay = {'native': 'no playback', 'path': None}
    for vals in tests:
        hsh = hashlib.sha1(json.dumps(vals).encode()).hexdigest()[:10]
        path = os.path.join(rdir, f"{h.name}-{h.mode}-{hsh}.json")
        rec = {'property': h.prop, 'harness': h.name, 'mode': h.mode, 'kind': h.kind, 'inst': h.inst, 'detail': j.detail,
               'crate': h.crate, 'vals': vals}
        with open(path, 'w') as f:
            json.dump(rec, f)
        prof = 'release' if h.mode == 'rel' else 'dev'
        other = 'dev' if prof == 'release' else 'release'
        res, _ = native_replay(h, path, prof, logdir)
        res2, _ = native_replay(h, path, other, logdir)
        rec['native'] = {prof: res, other: res2}
        with open(path, 'w') as f:
            json.dump(rec, f)
        if res == 'reproduced':
            j.replay = {'native': 'reproduced', 'path': path, 'other_profile': res2}
            return
        j.replay = {'native': res, 'path': path}


def replay_only(prop, path, logdir):
    rec = json.load(open(path))
    hs = [h for h in spec.by_prop(prop) if h.name == rec['harness'] and h.mode == rec.get('mode', 'dbg')]
    if not hs:
        log(f"unknown harness {rec['harness']}")
        return 2
    h = hs[0]
    prof = 'release' if h.mode == 'rel' else 'dev'
    res, txt = native_replay(h, os.path.abspath(path), prof, logdir)
    log(txt[-3000:])
    log(f"replay of {h.name} ({prof} profile): {res}")
    if res == 'reproduced':
        log(f"VIOLATION property={prop} replay={path}")
        return 1
    return 0 if res == 'not-reproduced' else 2


def write_evidence(prop, tier, seed, jobs, violations, findings, wall, nv_lines=()):
    decided = [j for j in jobs if j.state in ('held', 'failed')]
    held = [j for j in jobs if j.state == 'held']
    funcs = set()
    for j in jobs:
        if j.parsed:
            funcs |= set(j.parsed['functions'])
    n_checks = sum(len([c for c in j.parsed['checks'] if '.cover.' not in c['id']]) for j in decided if j.parsed)
    n_covers = sum(len([c for c in j.parsed['checks'] if '.cover.' in c['id'] and c['status'] == 'SATISFIED']) for j in held if j.parsed)
    samples = []
    for j in jobs[:400]:
        samples.append({'harness': j.h.name, 'mode': j.h.mode, 'instantiation': j.h.inst, 'api': j.h.funcs, 'bound': j.h.bound,
                        'kind': j.h.kind, 'result': j.state, 'wall_s': round(j.wall, 1),
                        'cbmc_checks': len(j.parsed['checks']) if j.parsed else 0,
                        'sat_vars': j.parsed['sat_vars'] if j.parsed else 0,
                        'solver_s': round(j.parsed['solver_s'], 2) if j.parsed else 0})
    ev = {
        'property_id': prop, 'tier': tier, 'seed': seed, 'level': 'model_checking',
        'coverage': {
            'evaluations': n_checks,
            'distinct_nontrivial': len(held),
            'rule': 'evaluations = CBMC properties (assertions, bnum-internal panics, overflow / bounds checks, unwinding assertions) decided by the '
                    'SAT solver over all symbolic inputs of the decided harnesses; distinct_nontrivial = harness x instantiation x build-mode '
                    'triples that held with every reachability cover SATISFIED (a harness with an unsatisfied cover counts as vacuous, not held)',
            'samples': samples,
            'obligations': len([j for j in jobs if j.h.kind != 'kf']), 'discharged': len([j for j in held if j.h.kind != 'kf']),
            'known_finding_twins': [{'harness': j.h.name, 'result': j.state, 'note': 'expected-to-fail harness isolating the input region of an open known finding'} for j in jobs if j.h.kind == 'kf'],
            'undecided': [{'harness': j.h.name, 'mode': j.h.mode, 'reason': j.detail[:200]} for j in jobs if j.state in ('undecided', 'vacuous')],
            'reachability_covers_satisfied': n_covers,
            'solver_s': round(sum(j.parsed['solver_s'] for j in jobs if j.parsed), 2),
            'symex_s': round(sum(j.parsed['symex_s'] for j in jobs if j.parsed), 2),
            'sat_calls': sum(j.parsed['sat_calls'] for j in jobs if j.parsed),
            'max_sat_variables': max((j.parsed['sat_vars'] for j in jobs if j.parsed), default=0),
            'max_sat_clauses': max((j.parsed['sat_clauses'] for j in jobs if j.parsed), default=0),
            'functions_encoded': sorted(funcs)[:400],
            'functions_encoded_count': len(funcs),
            'instantiations': sorted({j.h.inst for j in held}),
            'build_modes': sorted({j.h.mode for j in held}),
            'stubs': sorted({s for j in jobs if j.parsed for s in j.parsed['stubs']}),
            'stub_model_validation': list(nv_lines),
            'bounds': sorted({f"{j.h.macro}: {j.h.bound}" for j in held}),
            'outside_bounds': spec.OUTSIDE.get(prop, []),
            'known_findings_reported': [k['id'] for _, k in findings],
            'engine': 'Kani 0.68.0 / CBMC 6.11.0 / CaDiCaL; bnum compiled from /repo working tree on this run',
            'exhaustive': False,
        },
        'assumptions': spec.ASSUME.get(prop, []) + [
            'Kani MIR->GOTO translation and its core/alloc models; CBMC bit-level semantics of primitive operators; SAT solver',
            'harness-side oracles (byte-wise ripple arithmetic / primitive integer arithmetic) are the specification',
            'assertion reachability checks disabled for speed; vacuity is guarded by explicit cover witnesses instead',
        ],
        'wall_s': round(wall, 1),
        'violations': len(violations),
    }
    os.makedirs(os.path.join(ROOT, 'evidence'), exist_ok=True)
    with open(os.path.join(ROOT, 'evidence', f'{prop}.json'), 'w') as f:
        json.dump(ev, f, indent=1)
    if tier == 'thorough':
        # keep the (hours-long) thorough result next to the quick one, which a later quick run overwrites
        os.makedirs(os.path.join(ROOT, 'evidence', 'thorough'), exist_ok=True)
        with open(os.path.join(ROOT, 'evidence', 'thorough', f'{prop}.json'), 'w') as f:
            json.dump(ev, f, indent=1)


if __name__ == '__main__':
    sys.exit(main())
